#!/bin/bash
# Bounded stand-in for C10 (exhaustive within the stated bound; NEVER counted as proof).
# usage: extra/C10.sh <tier> <seed>     prints VIOLATION / KNOWN-FINDING lines, merges its
# coverage into evidence/C10.json (written by govc for the proof part), exit 0/1/2.
set -u
cd "$(dirname "$0")/.."
export GOFLAGS=-mod=mod GOPROXY=off
tier="${1:-quick}"
REPO="${VERIF_REPO:-/repo}"; export VERIF_EVIDENCE_DIR="${VERIF_EVIDENCE_DIR:-evidence}" VERIF_REPLAY_DIR="${VERIF_REPLAY_DIR:-replay}"
ops=3; [ "$tier" = thorough ] && ops=5
tmp="$(mktemp -d)"; trap 'rm -rf "$tmp"' EXIT
cat > "$tmp/ov.json" <<EOT
{"Replace": {"$REPO/internal/schema/zz_verif_c10_test.go": "$PWD/extra/c10_standin_test.go"}}
EOT
t0=$(date +%s.%N)
out=$(cd "$REPO" && VERIF_C10_OPS=$ops go test -v -overlay "$tmp/ov.json" -vet=off -count=1 -timeout 900s -run '^TestVerifC10BoundedStandIn$' ./internal/schema/ 2>&1)
res=$(echo "$out" | grep '^C10-RESULT ' | sed 's/^C10-RESULT //')
if [ -z "$res" ]; then echo "TOOL-ERROR C10 stand-in did not run:"; echo "$out" | tail -5; exit 2; fi
t1=$(date +%s.%N)
python3 - "$res" "$tier" "$ops" "$(echo "$t1 - $t0" | bc)" <<'PY'
import json,sys,os,re
res=json.loads(sys.argv[1]); tier=sys.argv[2]; ops=int(sys.argv[3]); wall=float(sys.argv[4])
known=[]
for l in open('KNOWN_FINDINGS'):
    l=l.strip()
    if l.startswith('finding:') and 'property=C10' in l:
        m=re.search(r'obligation=(\S+)',l)
        if m: known.append((m.group(1),l[len('finding:'):].strip()))
viol=0; kf=[]
RP=os.environ['VERIF_REPLAY_DIR']; EV=os.environ['VERIF_EVIDENCE_DIR']
os.makedirs(RP+'/C10',exist_ok=True)
for f in (res['failures'] or []):
    ob='C10/bounded-standin.'+f['Class']
    hit=[k for k in known if k[0]==ob]
    if hit:
        print('KNOWN-FINDING: '+hit[0][1]); kf.append(ob); continue
    path=RP+'/C10/'+re.sub(r'[^A-Za-z0-9_.-]','_',ob)+'.txt'
    open(path,'w').write('property: C10\nobligation: %s (bounded stand-in, not a proof obligation)\nfailing input (OPL permission expression): %s\n%s\nreplay: /verif/extra/C10.sh quick 0\n'%(ob,f['Expr'],f['Detail']))
    print('VIOLATION property=C10 replay=%s obligation=%s input=%s'%(path,ob,f['Expr'])); viol+=1
ev_path=EV+'/C10.json'
ev={}
if os.path.exists(ev_path):
    try: ev=json.load(open(ev_path))
    except Exception: ev={}
cov=ev.get('coverage',{})
proof={k:cov.get(k) for k in ('obligations','discharged','checker_cmd','trusted_base','functions_under_contract')}
ev.update({'property_id':'C10','tier':tier,'seed':int(os.environ.get('VERIF_SEED','0') or 0),'level':'exploration'})
ev['coverage']={
 'evaluations':res['evaluated'],'distinct_nontrivial':res['nontrivial'],
 'rule':'BOUNDED, exhaustive within the bound: every permission expression with <= %d binary operators (&&,||) over distinct atoms, with no negation, one negated node, or negated root+last leaf, rendered with minimal TypeScript parentheses in three atom spellings (permits call, includes, bracket-access traverse) and with full parentheses, as the last entry of the permits block with and without a trailing comma; parsed by the real schema.Parse; truth table of the produced rewrite compared with the TypeScript truth table. Non-trivial = at least one binary operator; every rendering is a distinct input'%ops,
 'samples':res['samples'] or ['this.permits.p0(ctx)'],'exhaustive':True,'bound':{'binary_operators':ops},
 'failure_classes':res['failure_counts'],'known_findings':kf,'proof_part':proof,
 'explanation':'the parser-vs-grammar meaning is NOT proved; this is a bounded stand-in as announced in DESIGN.md §4 C10. The proof part (simplifyExpression etc.) is reported under proof_part and in the govc output'}
ev['assumptions']=(ev.get('assumptions') or [])+['reference semantics: two-valued evaluation with TypeScript precedence ! > && > ||']
ev['wall_s']=float(ev.get('wall_s',0))+wall
ev['violations']=int(ev.get('violations',0))+viol
json.dump(ev,open(ev_path,'w'),indent=1)
print('property=C10 bounded-standin evaluated=%d nontrivial=%d ops<=%d failure-classes=%d known=%d violations=%d wall=%.1fs'%(res['evaluated'],res['nontrivial'],ops,len(res['failures'] or []),len(kf),viol,wall))
sys.exit(1 if viol else 0)
PY
