#!/bin/bash
# Bounded stand-in for the part of C16 outside the verifier's Go subset:
# (*Persister).batchFromUUIDs (map of slices, iter.Pull, paging by 100). Exhaustive within the
# stated bound; NEVER counted as proof. Adds coverage.bounded_standin to evidence/C16.json
# (written by govc for the proof part). usage: extra/C16.sh <tier> <seed>; exit 0/1/2.
set -u
cd "$(dirname "$0")/.."
export GOFLAGS=-mod=mod GOPROXY=off
tier="${1:-quick}"
REPO="${VERIF_REPO:-/repo}"; export VERIF_EVIDENCE_DIR="${VERIF_EVIDENCE_DIR:-evidence}" VERIF_REPLAY_DIR="${VERIF_REPLAY_DIR:-replay}"
deep=""; [ "$tier" = thorough ] && deep=1
tmp="$(mktemp -d)"; trap 'rm -rf "$tmp"' EXIT
cat > "$tmp/ov.json" <<EOT
{"Replace": {"$REPO/internal/relationtuple/zz_verif_c16_test.go": "$PWD/extra/c16_standin_test.go"}}
EOT
t0=$(date +%s.%N)
out=$(cd "$REPO" && VERIF_C16_DEEP=$deep go test -tags sqlite -v -overlay "$tmp/ov.json" -vet=off -count=1 -timeout 900s -run '^TestVerifC16BoundedStandIn$' ./internal/relationtuple/ 2>&1)
res=$(echo "$out" | grep '^C16-RESULT ' | sed 's/^C16-RESULT //')
if [ -z "$res" ]; then echo "TOOL-ERROR C16 stand-in did not run:"; echo "$out" | tail -8; exit 2; fi
t1=$(date +%s.%N)
python3 - "$res" "$tier" "$(echo "$t1 - $t0" | bc)" <<'PY'
import json,sys,os,re
res=json.loads(sys.argv[1]); tier=sys.argv[2]; wall=float(sys.argv[3])
known=[]
for l in open('KNOWN_FINDINGS'):
    l=l.strip()
    if l.startswith('finding:') and 'property=C16' in l:
        m=re.search(r'obligation=(\S+)',l)
        if m: known.append((m.group(1),l[len('finding:'):].strip()))
viol=0; kf=[]
RP=os.environ['VERIF_REPLAY_DIR']; EV=os.environ['VERIF_EVIDENCE_DIR']
os.makedirs(RP+'/C16',exist_ok=True)
for f in (res['failures'] or []):
    ob='C16/bounded-standin.'+f['Class']
    hit=[k for k in known if k[0]==ob]
    if hit:
        print('KNOWN-FINDING: '+hit[0][1]); kf.append(ob); continue
    path=RP+'/C16/'+re.sub(r'[^A-Za-z0-9_.-]','_',ob)+'.txt'
    open(path,'w').write('property: C16\nobligation: %s (bounded stand-in, not a proof obligation)\nfailing input (batch shape): %s\n%s\nreplay: /verif/extra/C16.sh quick 0\n'%(ob,f['Input'],f['Detail']))
    print('VIOLATION property=C16 replay=%s obligation=%s input=%s'%(path,ob,f['Input'].replace(' ','_'))); viol+=1
ev_path=EV+'/C16.json'
ev={}
if os.path.exists(ev_path):
    try: ev=json.load(open(ev_path))
    except Exception: ev={}
cov=ev.setdefault('coverage',{})
cov['bounded_standin']={
 'label':'BOUNDED - not a proof and not counted in obligations/discharged',
 'function':'(*Persister).batchFromUUIDs via MappingManager.MapUUIDsToStrings and Mapper.ToTuple, on SQLite',
 'evaluations':res['evaluated'],'lookups':res['lookups'],'exhaustive_within_bound':True,
 'bound':{'batch_lengths':res['sizes'],'duplicate_patterns':res['patterns'],'adversarial_names':res['names']},
 'rule':'every batch length x every duplicate pattern; names from the adversarial set (empty, blank, NUL, quotes, SQL wildcards and placeholders, separators of the string form, non-BMP, long), made distinct by a numeric suffix where the pattern asks for distinct values; written with MapStringsToUUIDs, read back with MapUUIDsToStrings and compared position by position; neighbouring positions compared for aliasing (equal strings <=> equal UUIDs); the same names as object / subject of tuples through Mapper.FromTuple and ToTuple, compared field by field',
 'samples':res['samples'],'failure_classes':res['failure_counts'],'known_findings':kf,'wall_s':wall}
ev['wall_s']=float(ev.get('wall_s',0))+wall
ev['violations']=int(ev.get('violations',0) or 0)+viol
ev.setdefault('assumptions',[])
note='batchFromUUIDs (map of index slices, iter.Pull, paging) is outside the Go subset: bounded stand-in only, see coverage.bounded_standin'
if note not in ev['assumptions']: ev['assumptions'].append(note)
json.dump(ev,open(ev_path,'w'),indent=1)
print('property=C16 bounded-standin batches=%d lookups=%d lengths<=%d failure-classes=%d known=%d violations=%d wall=%.1fs'%(res['evaluated'],res['lookups'],max(res['sizes']),len(res['failures'] or []),len(kf),viol,wall))
sys.exit(1 if viol else 0)
PY
