// Bounded stand-in for the part of property C16 that contracts do not reach (labelled
// BOUNDED, never counted as proved): (*Persister).batchFromUUIDs builds a map from UUID to
// positions, pulls its keys through iter.Pull and pages the lookup by 100 - maps of slices
// and pull iterators are outside the verifier's Go subset (DESIGN.md §2.2).
// Injected into package relationtuple_test by /verif/extra/C16.sh through `go test -overlay`.
//
// Exhaustive within the bound: every batch length in the stated list (around the lookup
// page of 100 and its multiples) x every duplicate pattern in the stated list x names drawn
// from an adversarial set; each batch goes through the real mapping manager on SQLite:
// MapStringsToUUIDs, then MapUUIDsToStrings, compared position by position; and through the
// real Mapper: FromTuple then ToTuple, compared field by field.
package relationtuple_test

import (
	"context"
	"encoding/json"
	"fmt"
	"os"
	"strings"
	"testing"

	"github.com/ory/keto/internal/driver"
	"github.com/ory/keto/internal/driver/config"
	"github.com/ory/keto/internal/namespace"
	"github.com/ory/keto/ketoapi"
)

type vc16Failure struct {
	Class  string
	Input  string
	Detail string
}

func vc16Names() []string {
	long := strings.Repeat("long-name-", 40)
	return []string{"", " ", "a", "A", "a ", "ä", "ä", "日本語", "\x00", "a\x00b", "o'brien", "%", "_", "?", "(?,?)", "n:o#r@s", "#", "@", long, long + "x",
		"00000000-0000-0000-0000-000000000000", "null", "NULL", "\\", "\"", "\n", "\t", "🙂", "a​b", "İ", "ı"}
}

// name k of a batch under a duplicate pattern
func vc16Pick(pattern string, k, n int, names []string) string {
	uniq := func(i int) string {
		base := names[i%len(names)]
		return fmt.Sprintf("%s/%d", base, i/len(names))
	}
	switch pattern {
	case "distinct":
		return uniq(k)
	case "all-same":
		return names[n%len(names)]
	case "pairs": // 0 0 1 1 2 2 ...
		return uniq(k / 2)
	case "mirror": // second half repeats the first half
		h := (n + 1) / 2
		if k < h {
			return uniq(k)
		}
		return uniq(k - h)
	case "every-third-same":
		if k%3 == 0 {
			return names[0]
		}
		return uniq(k)
	default: // raw adversarial names cycling (repeats when n > len(names))
		return names[k%len(names)]
	}
}

func TestVerifC16BoundedStandIn(t *testing.T) {
	ctx := context.Background()
	reg := driver.NewSqliteTestRegistry(t, false)
	if err := reg.Config(ctx).Set(config.KeyNamespaces, []*namespace.Namespace{{Name: "n"}, {Name: "m"}}); err != nil {
		t.Fatal(err)
	}
	names := vc16Names()
	sizes := []int{1, 2, 3, 7, 99, 100, 101, 150, 199, 200, 201, 250}
	if os.Getenv("VERIF_C16_DEEP") != "" {
		sizes = append(sizes, 299, 300, 301, 399, 400, 401, 512, 1000, 1001)
	}
	patterns := []string{"distinct", "all-same", "pairs", "mirror", "every-third-same", "raw"}
	var failures []vc16Failure
	counts := map[string]int{}
	fail := func(class, input, detail string) {
		counts[class]++
		if counts[class] == 1 {
			failures = append(failures, vc16Failure{class, input, detail})
		}
	}
	evaluated, lookups := 0, 0
	var samples []string
	mm := reg.MappingManager()
	for _, n := range sizes {
		for _, pat := range patterns {
			func() {
				defer func() {
					if r := recover(); r != nil {
						fail("panic", fmt.Sprintf("n=%d pattern=%s", n, pat), fmt.Sprintf("panic on a legal batch: %v", r))
					}
				}()
				in := make([]string, n)
				for k := range in {
					in[k] = vc16Pick(pat, k, n, names)
				}
				label := fmt.Sprintf("n=%d pattern=%s", n, pat)
				if len(samples) < 6 {
					samples = append(samples, label)
				}
				evaluated++
				// --- mapping manager, position by position
				us, err := mm.MapStringsToUUIDs(ctx, in...)
				if err != nil {
					fail("map-strings-error", label, err.Error())
					return
				}
				if len(us) != n {
					fail("uuid-count", label, fmt.Sprintf("got %d uuids for %d strings", len(us), n))
					return
				}
				for a := 0; a < n; a++ {
					for b := a + 1; b < n && b < a+4; b++ {
						if (in[a] == in[b]) != (us[a] == us[b]) {
							fail("aliasing", label, fmt.Sprintf("positions %d,%d: strings equal=%v uuids equal=%v", a, b, in[a] == in[b], us[a] == us[b]))
						}
					}
				}
				back, err := mm.MapUUIDsToStrings(ctx, us...)
				lookups++
				if err != nil {
					fail("map-uuids-error", label, err.Error())
					return
				}
				if len(back) != n {
					fail("string-count", label, fmt.Sprintf("got %d strings for %d uuids", len(back), n))
					return
				}
				for k := range in {
					if back[k] != in[k] {
						fail("position", label, fmt.Sprintf("position %d: wrote %q, read %q", k, in[k], back[k]))
						break
					}
				}
				// --- the Mapper on top of it: tuples whose object / subject names are the batch
				var ts []*ketoapi.RelationTuple
				for k := 0; k+1 < n && k < 240; k += 2 {
					tp := &ketoapi.RelationTuple{Namespace: "n", Object: in[k], Relation: "r"}
					if (k/2)%2 == 0 {
						s := in[k+1]
						tp.SubjectID = &s
					} else {
						tp.SubjectSet = &ketoapi.SubjectSet{Namespace: "m", Object: in[k+1], Relation: "rel" + fmt.Sprint(k%5)}
					}
					ts = append(ts, tp)
				}
				if len(ts) == 0 {
					return
				}
				its, err := reg.Mapper().FromTuple(ctx, ts...)
				if err != nil {
					fail("from-tuple-error", label, err.Error())
					return
				}
				rt, err := reg.ReadOnlyMapper().ToTuple(ctx, its...)
				lookups++
				if err != nil {
					fail("to-tuple-error", label, err.Error())
					return
				}
				if len(rt) != len(ts) {
					fail("tuple-count", label, fmt.Sprintf("%d tuples in, %d out", len(ts), len(rt)))
					return
				}
				for k := range ts {
					if rt[k].String() != ts[k].String() || rt[k].Object != ts[k].Object ||
						(ts[k].SubjectID == nil) != (rt[k].SubjectID == nil) ||
						(ts[k].SubjectID != nil && *ts[k].SubjectID != *rt[k].SubjectID) ||
						(ts[k].SubjectSet != nil && (rt[k].SubjectSet == nil || *ts[k].SubjectSet != *rt[k].SubjectSet)) {
						fail("tuple-round-trip", label, fmt.Sprintf("tuple %d: wrote %q, read %q", k, ts[k].String(), rt[k].String()))
						break
					}
				}
			}()
		}
	}
	out, _ := json.Marshal(map[string]any{"evaluated": evaluated, "lookups": lookups, "sizes": sizes, "patterns": patterns,
		"names": len(names), "failures": failures, "failure_counts": counts, "samples": samples})
	fmt.Printf("C16-RESULT %s\n", out)
}
