// Bounded stand-in for property C10 (labelled BOUNDED, never counted as proved).
// Injected into package schema by /verif/extra/C10.sh through `go test -overlay`.
//
// Enumerates every permission expression with at most VERIF_C10_OPS binary operators
// over distinct atoms, every placement of '!' on sub-expressions (at most one per node),
// renders it with the MINIMAL parentheses TypeScript needs (so precedence matters) and
// with full parentheses, parses it with the real schema.Parse, and compares the truth
// table of the produced rewrite with the truth table of the expression under TypeScript
// precedence (! over && over ||). Output: one JSON line with counts and the failing
// classes; the driver turns unknown classes into VIOLATION lines.
package schema

import (
	"encoding/json"
	"fmt"
	"os"
	"sort"
	"strconv"
	"strings"
	"testing"

	"github.com/ory/keto/internal/namespace/ast"
)

type vexpr struct {
	op   byte // 'a' atom, '!' not, '&' and, '|' or
	atom int
	l, r *vexpr
}

func (e *vexpr) eval(v []bool) bool {
	switch e.op {
	case 'a':
		return v[e.atom]
	case '!':
		return !e.l.eval(v)
	case '&':
		return e.l.eval(v) && e.r.eval(v)
	default:
		return e.l.eval(v) || e.r.eval(v)
	}
}

func prec(e *vexpr) int {
	switch e.op {
	case '|':
		return 1
	case '&':
		return 2
	case '!':
		return 3
	}
	return 4
}

func atomText(i int, variant int) string {
	name := "p" + strconv.Itoa(i)
	switch variant % 3 {
	case 0:
		return "this.permits." + name + "(ctx)"
	case 1:
		return "this.related." + name + "r.includes(ctx.subject)"
	default:
		return `this.related["` + name + `r"].traverse((x) => x.permits.` + name + "(ctx))"
	}
}

// render with minimal parentheses (full == true: parenthesise every binary node)
func render(e *vexpr, parent int, right bool, full bool, variant int) string {
	var s string
	switch e.op {
	case 'a':
		return atomText(e.atom, variant)
	case '!':
		inner := render(e.l, 3, false, full, variant)
		if e.l.op == '&' || e.l.op == '|' {
			if !strings.HasPrefix(inner, "(") {
				inner = "(" + inner + ")"
			}
		}
		return "!" + inner
	case '&':
		s = render(e.l, 2, false, full, variant) + " && " + render(e.r, 2, true, full, variant)
	default:
		s = render(e.l, 1, false, full, variant) + " || " + render(e.r, 1, true, full, variant)
	}
	p := prec(e)
	if full || p < parent || (p == parent && right) {
		return "(" + s + ")"
	}
	return s
}

func gen(ops int, next *int) []*vexpr {
	// all shapes with exactly `ops` binary operators, atoms numbered left to right
	var shapes func(n int) []*vexpr
	shapes = func(n int) []*vexpr {
		if n == 0 {
			return []*vexpr{{op: 'a'}}
		}
		var out []*vexpr
		for k := 0; k < n; k++ {
			for _, l := range shapes(k) {
				for _, r := range shapes(n - 1 - k) {
					for _, op := range []byte{'&', '|'} {
						out = append(out, &vexpr{op: op, l: l, r: r})
					}
				}
			}
		}
		return out
	}
	return shapes(ops)
}

func clone(e *vexpr) *vexpr {
	if e == nil {
		return nil
	}
	return &vexpr{op: e.op, atom: e.atom, l: clone(e.l), r: clone(e.r)}
}

func number(e *vexpr, n *int) {
	if e.op == 'a' {
		e.atom = *n
		*n++
		return
	}
	number(e.l, n)
	if e.r != nil {
		number(e.r, n)
	}
}

// nodes in pre-order (for negation placement)
func nodes(e *vexpr, out *[]**vexpr, slot **vexpr) {
	*out = append(*out, slot)
	if e.op != 'a' {
		nodes(e.l, out, &e.l)
		if e.r != nil {
			nodes(e.r, out, &e.r)
		}
	}
}

func evalRewrite(rw *ast.SubjectSetRewrite, v map[string]bool) (bool, error) {
	var evalChild func(c ast.Child) (bool, error)
	evalChild = func(c ast.Child) (bool, error) {
		switch x := c.(type) {
		case *ast.ComputedSubjectSet:
			return v[strings.TrimSuffix(x.Relation, "r")], nil
		case *ast.TupleToSubjectSet:
			return v[x.ComputedSubjectSetRelation], nil
		case *ast.InvertResult:
			b, err := evalChild(x.Child)
			return !b, err
		case *ast.SubjectSetRewrite:
			return evalRewrite(x, v)
		}
		return false, fmt.Errorf("unexpected child %T", c)
	}
	if rw == nil {
		return false, fmt.Errorf("nil rewrite")
	}
	res := rw.Operation == ast.OperatorAnd
	for _, c := range rw.Children {
		b, err := evalChild(c)
		if err != nil {
			return false, err
		}
		if rw.Operation == ast.OperatorAnd {
			res = res && b
		} else {
			res = res || b
		}
	}
	if len(rw.Children) == 0 {
		return false, fmt.Errorf("empty rewrite")
	}
	return res, nil
}

func classify(e *vexpr) string {
	// does some '||' node have a direct '&&' child or vice versa without the renderer adding parentheses?
	mixed := false
	neg := false
	var walk func(x *vexpr)
	walk = func(x *vexpr) {
		if x.op == '!' {
			neg = true
		}
		if x.op == '|' && ((x.l.op == '&') || (x.r.op == '&')) {
			mixed = true
		}
		if x.l != nil {
			walk(x.l)
		}
		if x.r != nil {
			walk(x.r)
		}
	}
	walk(e)
	switch {
	case mixed && !neg:
		return "and-below-or-without-parentheses"
	case mixed:
		return "and-below-or-without-parentheses+negation"
	case neg:
		return "negation"
	}
	return "other"
}

func TestVerifC10BoundedStandIn(t *testing.T) {
	maxOps, _ := strconv.Atoi(os.Getenv("VERIF_C10_OPS"))
	if maxOps <= 0 {
		maxOps = 3
	}
	type failure struct {
		Class, Expr, Detail string
	}
	evaluated, nontrivial := 0, 0
	classes := map[string]*failure{}
	classCount := map[string]int{}
	var samples []string
	for ops := 0; ops <= maxOps; ops++ {
		for _, shape := range gen(ops, nil) {
			// negation placements: none, or exactly one node negated, or root and one leaf
			base := clone(shape)
			var slots []**vexpr
			root := base
			nodes(root, &slots, &root)
			placements := [][]int{{}}
			for i := range slots {
				placements = append(placements, []int{i})
			}
			if len(slots) > 2 {
				placements = append(placements, []int{0, len(slots) - 1})
			}
			for _, pl := range placements {
				e := clone(shape)
				var sl []**vexpr
				r := e
				nodes(r, &sl, &r)
				for _, i := range pl {
					inner := *sl[i]
					*sl[i] = &vexpr{op: '!', l: inner}
				}
				n := 0
				number(r, &n)
				for _, full := range []bool{false, true} {
					for variant := 0; variant < 3; variant++ {
						if (full || ops == 0) && variant > 0 {
							continue
						}
						src := render(r, 0, false, full, variant)
						var rels []string
						for i := 0; i < n; i++ {
							rels = append(rels, fmt.Sprintf("p%dr: T[]", i))
						}
						var perms []string
						for i := 0; i < n; i++ {
							perms = append(perms, fmt.Sprintf("p%d: (ctx: Context): boolean => this.related.p%dr.includes(ctx.subject),", i, i))
						}
						for _, trailing := range []string{",", ""} {
							// the permission under test is the last entry of the permits block, written with and
							// without a trailing comma (the expression then ends at the closing brace)
							doc := "import { Namespace, Context } from \"@ory/keto-namespace-types\"\nclass T implements Namespace {\n  related: {\n    " + strings.Join(rels, "\n    ") + "\n  }\n  permits = {\n    " + strings.Join(perms, "\n    ") + "\n    target: (ctx: Context): boolean => " + src + trailing + "\n  }\n}\n"
							evaluated++
							if ops > 0 {
								nontrivial++
							}
							if len(samples) < 6 && ops == maxOps && evaluated%97 == 0 {
								samples = append(samples, src)
							}
							nss, errs := Parse(doc)
							fail := func(detail string) {
								c := classify(r)
								if trailing == "" {
									c += "+no-trailing-comma"
								}
								classCount[c]++
								if classes[c] == nil {
									classes[c] = &failure{Class: c, Expr: src, Detail: detail}
								}
							}
							if len(errs) > 0 {
								fail("parse error: " + errs[0].msg)
								continue
							}
							var rw *ast.SubjectSetRewrite
							for _, ns := range nss {
								for i := range ns.Relations {
									if ns.Relations[i].Name == "target" {
										rw = ns.Relations[i].SubjectSetRewrite
									}
								}
							}
							ok := true
							for m := 0; m < 1<<uint(n) && ok; m++ {
								v := make([]bool, n)
								vm := map[string]bool{}
								for i := 0; i < n; i++ {
									v[i] = m&(1<<uint(i)) != 0
									vm["p"+strconv.Itoa(i)] = v[i]
								}
								got, err := evalRewrite(rw, vm)
								if err != nil {
									fail(err.Error())
									ok = false
								} else if got != r.eval(v) {
									fail(fmt.Sprintf("assignment %v: keto %v, TypeScript %v", v, got, r.eval(v)))
									ok = false
								}
							}
						}
					}
				}
			}
		}
	}
	var fl []*failure
	for _, f := range classes {
		fl = append(fl, f)
	}
	sort.Slice(fl, func(i, j int) bool { return fl[i].Class < fl[j].Class })
	out, _ := json.Marshal(map[string]any{"evaluated": evaluated, "nontrivial": nontrivial, "max_ops": maxOps, "failures": fl, "failure_counts": classCount, "samples": samples})
	fmt.Printf("C10-RESULT %s\n", out)
}
