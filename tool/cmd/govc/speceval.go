package main

import (
	"fmt"
	"go/token"
	"os"
	"go/constant"
	"go/types"
	"strings"

	"golang.org/x/tools/go/ssa"
)

type SpecEnv struct {
	vars      map[string]Val
	fr        *Frame // frame whose locals are visible (loop invariants)
	useLocals bool
	old       *State
	fn        *ssa.Function
	pkg       *types.Package
	depth     int
	entryVars map[string]Val // parameter entry values, used under old()
	localsAfterVars bool     // explicit vars (params, results) win over same-named locals
	freePtrs  map[string]Val // captured variables: name -> pointer to the variable's cell
	atHead    map[string]Val // loop-step clauses: values taken at the loop head (athead(e))
}

func (env *SpecEnv) with(name string, v Val) *SpecEnv {
	ne := *env
	ne.vars = make(map[string]Val, len(env.vars)+1)
	for k, x := range env.vars {
		ne.vars[k] = x
	}
	ne.vars[name] = v
	return &ne
}

var (
	tInt  = types.Typ[types.Int]
	tBool = types.Typ[types.Bool]
	tStr  = types.Typ[types.String]
)

func intVal(t Term) Val  { return Val{T: tInt, Terms: []Term{t}} }
func boolVal(t Term) Val { return Val{T: tBool, Terms: []Term{t}} }

func (u *Unit) pkgOf(fn *ssa.Function) *types.Package {
	p := fn
	for p.Parent() != nil {
		p = p.Parent()
	}
	if p.Pkg != nil {
		return p.Pkg.Pkg
	}
	if p.Origin() != nil && p.Origin().Pkg != nil {
		return p.Origin().Pkg.Pkg
	}
	return nil
}

// contractEnv builds the environment for evaluating a contract of fn: parameter
// names bound to params, free variables to bind, results to results.
func (u *Unit) contractEnv(st *State, fr *Frame, c *FuncContract, params []Val, bind []Val, results []Val, old *State) *SpecEnv {
	return u.contractEnvFn(fr.fn, params, bind, results, old)
}

func (u *Unit) contractEnvFn(fn *ssa.Function, params []Val, bind []Val, results []Val, old *State) *SpecEnv {
	env := &SpecEnv{vars: map[string]Val{}, old: old, fn: fn, pkg: u.pkgOf(fn)}
	env.vars["self"] = Val{T: fn.Type(), Terms: []Term{sInt(int64(u.fnID(fn)))}, Fn: &FnVal{Fn: fn}}
	for i, p := range fn.Params {
		if i < len(params) {
			env.vars[p.Name()] = params[i]
			env.vars[fmt.Sprintf("arg%d", i)] = params[i]
		}
	}
	for i, fv := range fn.FreeVars {
		if i < len(bind) {
			if env.freePtrs == nil {
				env.freePtrs = map[string]Val{}
			}
			env.freePtrs[fv.Name()] = bind[i]
		}
	}
	if results != nil {
		sig := fn.Signature
		for i := 0; i < sig.Results().Len() && i < len(results); i++ {
			n := sig.Results().At(i).Name()
			if n != "" && n != "_" {
				env.vars[n] = results[i]
			}
			env.vars[fmt.Sprintf("result%d", i)] = results[i]
		}
		if len(results) == 1 {
			env.vars["result"] = results[0]
		}
	}
	return env
}

// sigEnv builds an environment from a bare signature (interface methods, externals).
func (u *Unit) sigEnv(sig *types.Signature, recv *Val, params []Val, results []Val, old *State, pkg *types.Package) *SpecEnv {
	env := &SpecEnv{vars: map[string]Val{}, old: old, pkg: pkg}
	if recv != nil {
		env.vars["recv"] = *recv
		env.vars["self"] = *recv
		if sig.Recv() != nil && sig.Recv().Name() != "" {
			env.vars[sig.Recv().Name()] = *recv
		}
	}
	for i := 0; i < sig.Params().Len() && i < len(params); i++ {
		n := sig.Params().At(i).Name()
		if n != "" && n != "_" {
			env.vars[n] = params[i]
		}
		env.vars[fmt.Sprintf("arg%d", i)] = params[i]
	}
	if results != nil {
		for i := 0; i < sig.Results().Len() && i < len(results); i++ {
			n := sig.Results().At(i).Name()
			if n != "" && n != "_" {
				env.vars[n] = results[i]
			}
			env.vars[fmt.Sprintf("result%d", i)] = results[i]
		}
		if len(results) == 1 {
			env.vars["result"] = results[0]
		}
	}
	return env
}

func (u *Unit) evalBool(st *State, env *SpecEnv, e *Spec) (Term, error) {
	v, err := u.eval(st, env, e)
	if err != nil {
		return "", err
	}
	if len(v.Terms) != 1 {
		return "", fmt.Errorf("expression %s is not boolean", e)
	}
	return v.Terms[0], nil
}

func (u *Unit) evalInt(st *State, env *SpecEnv, e *Spec) (Term, error) {
	v, err := u.eval(st, env, e)
	if err != nil {
		return "", err
	}
	if len(v.Terms) != 1 {
		return "", fmt.Errorf("expression %s is not scalar", e)
	}
	return v.Terms[0], nil
}

// pure heap read (no path lines are added)
func (u *Unit) specLoad(st *State, pv Val) (Val, error) {
	p := u.ptrOf(pv)
	if p == nil {
		return Val{}, fmt.Errorf("cannot dereference non-pointer")
	}
	e := u.eng
	lo, hi, target, _ := e.pathRange(p.Root, p.Path)
	if p.Kind == PLocal {
		for i := len(st.frames) - 1; i >= 0; i-- {
			if c, ok := st.frames[i].locals[p.Alloc]; ok {
				return Val{T: target, Terms: append([]Term(nil), c[lo:hi]...)}, nil
			}
		}
		return Val{}, fmt.Errorf("local cell not found")
	}
	locs, _ := u.locsOf(p)
	ts := make([]Term, len(locs))
	for i, l := range locs {
		ts[i] = u.readLoc(st, l)
	}
	v := Val{T: target, Terms: ts}
	if len(locs) > 0 {
		// Go-side knowledge about the value stored in this cell (closure identity, dynamic type)
		if iv, ok := st.info["H"+p.Ref+"|"+p.Idx+"|"+locs[0].comp+"|"+st.heap[locs[0].comp]]; ok && len(iv.Terms) == len(ts) {
			iv.T = target
			iv.Terms = ts
			v = iv
		}
	}
	return v, nil
}

func (u *Unit) findLocal(fr *Frame, name string) *ssa.Alloc {
	var best *ssa.Alloc
	for _, b := range fr.fn.Blocks {
		for _, in := range b.Instrs {
			if a, ok := in.(*ssa.Alloc); ok && a.Comment == name {
				if _, live := fr.regs[a]; live || best == nil {
					if best == nil || (live && a.Pos() > best.Pos()) {
						best = a
					}
				}
			}
		}
	}
	return best
}

func sortOfTypeName(n string) (string, types.Type, int) {
	switch n {
	case "int", "Int":
		return "Int", tInt, 1
	case "bool", "Bool":
		return "Bool", tBool, 1
	case "string", "Str":
		return "Str", tStr, 1
	case "iface":
		return "Int", nil, 2
	case "slice":
		return "Int", nil, 4
	}
	return "Int", tInt, 1
}

// specSort maps a type name used in ghost declarations to an SMT sort and arity.
func (u *Unit) specSort(env *SpecEnv, n string) (string, types.Type, int) {
	switch n {
	case "int", "Int", "bool", "Bool", "string", "Str", "iface", "slice", "ref":
		return sortOfTypeName(n)
	}
	if te, err := ParseSpec(n); err == nil {
		if t, err := u.resolveType(env, te); err == nil {
			ls := u.eng.leavesOf(t)
			if len(ls) == 1 {
				return ls[0].Sort, t, 1
			}
			return "Int", t, len(ls)
		}
	}
	return sortOfTypeName(n)
}

func (u *Unit) resolveType(env *SpecEnv, e *Spec) (types.Type, error) {
	switch e.Kind {
	case SDeref:
		t, err := u.resolveType(env, e.A)
		if err != nil {
			return nil, err
		}
		return types.NewPointer(t), nil
	case SIdent:
		if env.pkg != nil {
			if o := env.pkg.Scope().Lookup(e.Name); o != nil {
				if tn, ok := o.(*types.TypeName); ok {
					return tn.Type(), nil
				}
			}
		}
		if o := types.Universe.Lookup(e.Name); o != nil {
			if tn, ok := o.(*types.TypeName); ok {
				return tn.Type(), nil
			}
		}
	case SSel:
		if e.A.Kind == SIdent {
			var cands []*types.Package
			if p := u.findPkg(env, e.A.Name); p != nil {
				cands = append(cands, p)
			}
			for _, sp := range u.eng.prog.AllPackages() {
				if sp.Pkg.Name() == e.A.Name {
					cands = append(cands, sp.Pkg)
				}
			}
			for _, p := range cands {
				if o := p.Scope().Lookup(e.Name); o != nil {
					if tn, ok := o.(*types.TypeName); ok {
						return tn.Type(), nil
					}
				}
			}
		}
	}
	return nil, fmt.Errorf("cannot resolve type %s", e)
}

func (u *Unit) findPkg(env *SpecEnv, name string) *types.Package {
	if env.pkg != nil {
		for _, imp := range env.pkg.Imports() {
			if imp.Name() == name {
				return imp
			}
		}
		if env.pkg.Name() == name {
			return env.pkg
		}
	}
	// search all loaded packages by name (prefer repository packages)
	var found *types.Package
	for _, p := range u.eng.prog.AllPackages() {
		if p.Pkg.Name() == name {
			if isRepoPkg(p.Pkg) {
				return p.Pkg
			}
			if found == nil {
				found = p.Pkg
			}
		}
	}
	return found
}

func (u *Unit) objVal(st *State, o types.Object) (Val, bool) {
	switch x := o.(type) {
	case *types.Const:
		t := x.Type()
		switch x.Val().Kind() {
		case constant.Int:
			s := x.Val().ExactString()
			if strings.HasPrefix(s, "-") {
				s = "(- " + s[1:] + ")"
			}
			return Val{T: t, Terms: []Term{s}}, true
		case constant.String:
			return Val{T: t, Terms: []Term{u.eng.strLit(constant.StringVal(x.Val()))}}, true
		case constant.Bool:
			if constant.BoolVal(x.Val()) {
				return boolVal("true"), true
			}
			return boolVal("false"), true
		}
	case *types.Func:
		if x.Pkg() != nil {
			if sp := u.eng.prog.Package(x.Pkg()); sp != nil {
				if fn, ok := sp.Members[x.Name()].(*ssa.Function); ok {
					return Val{T: fn.Type(), Terms: []Term{sInt(int64(u.fnID(fn)))}, Fn: &FnVal{Fn: fn}}, true
				}
			}
		}
	case *types.Var:
		if x.Pkg() != nil {
			if sp := u.eng.prog.Package(x.Pkg()); sp != nil {
				if g, ok := sp.Members[x.Name()].(*ssa.Global); ok {
					gv := Val{T: g.Type(), Terms: []Term{u.eng.globalTerm(g)}, Ptr: &Ptr{Kind: PObj, Ref: u.eng.globalTerm(g), Root: derefType(g.Type())}}
					v, err := u.specLoad(st, gv)
					if err == nil {
						return v, true
					}
				}
			}
		}
	}
	return Val{}, false
}

func (u *Unit) eval(st *State, env *SpecEnv, e *Spec) (Val, error) {
	u.evalDepth++
	v, err := u.evalInner(st, env, e)
	u.evalDepth--
	if u.evalDepth == 0 && len(u.sideFacts) > 0 {
		facts := u.sideFacts
		u.sideFacts = nil
		seen := map[Term]bool{}
		for _, f := range facts {
			if !seen[f] {
				seen[f] = true
				st.assume(f)
			}
		}
	}
	return v, err
}

func (u *Unit) evalInner(st *State, env *SpecEnv, e *Spec) (Val, error) {
	switch e.Kind {
	case SInt:
		return intVal(sInt(e.Int)), nil
	case SBool:
		if e.Bool {
			return boolVal("true"), nil
		}
		return boolVal("false"), nil
	case SStr:
		return Val{T: tStr, Terms: []Term{u.eng.strLit(e.Str)}}, nil
	case SNil:
		return Val{T: types.Typ[types.UntypedNil], Terms: []Term{"0"}}, nil
	case SIdent:
		if v, ok := env.vars[e.Name]; ok {
			return v, nil
		}
		if pv, ok := env.freePtrs[e.Name]; ok {
			return u.specLoad(st, pv)
		}
		if env.useLocals && env.fr != nil {
			if a := u.findLocal(env.fr, e.Name); a != nil {
				if pv, ok := env.fr.regs[a]; ok {
					if a.Heap {
						return u.specLoad(st, pv)
					}
					if cells, ok := u.frameOf(st, env.fr).locals[a]; ok {
						lv := Val{T: derefType(a.Type()), Terms: append([]Term(nil), cells...)}
						// Go-side knowledge about the value in the cell (closure identity, dynamic type)
						if iv, ok := st.info[fmt.Sprintf("L%p", a)]; ok && sameTerms(iv.Terms, lv.Terms) {
							iv.T = lv.T
							return iv, nil
						}
						return lv, nil
					}
				}
				// not yet allocated on this path: zero value
				return u.zeroVal(derefType(a.Type())), nil
			}
		}
		if gs, ok := u.eng.ghostVars[e.Name]; ok {
			t := types.Type(tInt)
			if gs == "Bool" {
				t = tBool
			}
			return Val{T: t, Terms: []Term{u.heapGet(st, "G_"+e.Name, gs)}}, nil
		}
		if env.pkg != nil {
			if o := env.pkg.Scope().Lookup(e.Name); o != nil {
				if v, ok := u.objVal(st, o); ok {
					return v, nil
				}
			}
		}
		return Val{}, fmt.Errorf("unknown identifier %q", e.Name)
	case SOld:
		if env.old == nil {
			return Val{}, fmt.Errorf("old() not available here")
		}
		ne := *env
		ne.useLocals = false
		if env.entryVars != nil {
			ne.vars = make(map[string]Val, len(env.vars))
			for k, v := range env.vars {
				ne.vars[k] = v
			}
			for k, v := range env.entryVars {
				ne.vars[k] = v
			}
		}
		return u.eval(env.old, &ne, e.A)
	case SUnary:
		a, err := u.eval(st, env, e.A)
		if err != nil {
			return Val{}, err
		}
		if e.Op == "!" {
			return boolVal(sNot(a.Terms[0])), nil
		}
		return intVal(fmt.Sprintf("(- %s)", a.Terms[0])), nil
	case SDeref:
		a, err := u.eval(st, env, e.A)
		if err != nil {
			return Val{}, err
		}
		return u.specLoad(st, a)
	case SCond:
		c, err := u.evalBool(st, env, e.A)
		if err != nil {
			return Val{}, err
		}
		a, err := u.eval(st, env, e.B)
		if err != nil {
			return Val{}, err
		}
		b, err := u.eval(st, env, e.C)
		if err != nil {
			return Val{}, err
		}
		if len(a.Terms) != len(b.Terms) {
			return Val{}, fmt.Errorf("conditional branches differ in shape")
		}
		ts := make([]Term, len(a.Terms))
		for i := range ts {
			ts[i] = sIte(c, a.Terms[i], b.Terms[i])
		}
		return Val{T: a.T, Terms: ts}, nil
	case SBinary:
		return u.evalBinary(st, env, e)
	case SQuant:
		var guard Term = "true"
		sort := "Int"
		bt := types.Type(tInt)
		if e.B != nil {
			lo, err := u.evalInt(st, env, e.B)
			if err != nil {
				return Val{}, err
			}
			hi, err := u.evalInt(st, env, e.C)
			if err != nil {
				return Val{}, err
			}
			guard = fmt.Sprintf("(and (<= %s %s) (< %s %s))", lo, "$V", "$V", hi)
		} else if strings.ContainsAny(e.TypeName, "*.") {
			te, perr := ParseSpec(e.TypeName)
			if perr != nil {
				return Val{}, perr
			}
			rt, rerr := u.resolveType(env, te)
			if rerr != nil {
				return Val{}, rerr
			}
			bt = rt
			if !pointerLike(rt) {
				return Val{}, fmt.Errorf("quantification over non-reference type %s", e.TypeName)
			}
		} else {
			sort, bt, _ = sortOfTypeName(e.TypeName)
			if bt == nil {
				bt = tInt
			}
		}
		// bound variables are named by nesting depth, not by a global counter: the same formula
		// evaluated twice (once assumed, once as a goal) gets the same text
		u.qNest++
		bv := fmt.Sprintf("q_%s!n%d", mangle(e.Name), u.qNest)
		guard = strings.ReplaceAll(guard, "$V", bv)
		body, err := u.evalBool(st, env.with(e.Name, Val{T: bt, Terms: []Term{bv}}), e.A)
		u.qNest--
		if err != nil {
			return Val{}, err
		}
		if e.Op == "forall" {
			return boolVal(fmt.Sprintf("(forall ((%s %s)) %s)", bv, sort, sImp(guard, body))), nil
		}
		ex := fmt.Sprintf("(exists ((%s %s)) %s)", bv, sort, sAnd(guard, body))
		// hints only on goals and only for the outermost existential: the text of an existential
		// is then the same wherever it is evaluated (assumed or required)
		if u.goalEval && u.qNest == 0 && e.B != nil && sort == "Int" && !strings.Contains(ex, "qi_") {
			// witness hints: (exists x. P) is equivalent to (exists x. P) or P[t1] or ... ; the
			// instances at the index terms met on the path spare the solver the search
			ts := st.ixterms
			if len(ts) > 8 {
				ts = ts[len(ts)-8:]
			}
			alts := []Term{ex}
			for _, t := range ts {
				if strings.Contains(t, "q_") {
					continue
				}
				alts = append(alts, replaceVar(sAnd(guard, body), bv, t))
			}
			return boolVal(sOr(alts...)), nil
		}
		return boolVal(ex), nil
	case SSel:
		return u.evalSel(st, env, e)
	case SIndex:
		a, err := u.eval(st, env, e.A)
		if err != nil {
			return Val{}, err
		}
		i, err := u.evalInt(st, env, e.B)
		if err != nil {
			return Val{}, err
		}
		if a.T != nil {
			switch t := a.T.Underlying().(type) {
			case *types.Basic:
				if t.Info()&types.IsString != 0 {
					return intVal(fmt.Sprintf("(sat %s %s)", a.Terms[0], i)), nil
				}
			case *types.Slice:
				b, o, _, _ := sliceParts(a)
				if u.ixCollect != nil {
					*u.ixCollect = append(*u.ixCollect, i)
				}
				if u.goalEval && !strings.Contains(i, "q_") && !strings.Contains(i, "qi_") {
					// a goal reads s[i]: the universally quantified facts known on the path
					// (append, callee postconditions) are instantiated at i
					u.instantiate(st, i)
				}
				locs := u.elemLocs(t.Elem(), b, fmt.Sprintf("(+ %s %s)", o, i))
				ts := make([]Term, len(locs))
				for k, l := range locs {
					ts[k] = u.readLoc(st, l)
				}
				return Val{T: t.Elem(), Terms: ts}, nil
			case *types.Map:
				kv, err := u.eval(st, env, e.B)
				if err != nil {
					return Val{}, err
				}
				return u.mapGetPure(st, a, kv), nil
			}
		}
		return Val{}, fmt.Errorf("cannot index %s", e.A)
	case SSlice:
		a, err := u.eval(st, env, e.A)
		if err != nil {
			return Val{}, err
		}
		var lo, hi Term = "0", ""
		if e.B != nil {
			if lo, err = u.evalInt(st, env, e.B); err != nil {
				return Val{}, err
			}
		}
		if e.C != nil {
			if hi, err = u.evalInt(st, env, e.C); err != nil {
				return Val{}, err
			}
		}
		if a.T != nil && isString(a.T) {
			if hi == "" {
				hi = fmt.Sprintf("(slen %s)", a.Terms[0])
			}
			return Val{T: a.T, Terms: []Term{fmt.Sprintf("(ssub %s %s %s)", a.Terms[0], lo, hi)}}, nil
		}
		if a.T != nil {
			if _, ok := a.T.Underlying().(*types.Slice); ok {
				b, o, l, c := sliceParts(a)
				if hi == "" {
					hi = l
				}
				return Val{T: a.T, Terms: []Term{b, fmt.Sprintf("(+ %s %s)", o, lo), fmt.Sprintf("(- %s %s)", hi, lo), fmt.Sprintf("(- %s %s)", c, lo)}}, nil
			}
		}
		return Val{}, fmt.Errorf("cannot slice %s", e.A)
	case SCall:
		return u.evalCall(st, env, e)
	}
	return Val{}, fmt.Errorf("unsupported spec expression %s", e)
}

func (u *Unit) frameOf(st *State, fr *Frame) *Frame {
	// frames are cloned on fork; find the frame of the same function at the same depth
	for i := len(st.frames) - 1; i >= 0; i-- {
		if st.frames[i].fn == fr.fn {
			return st.frames[i]
		}
	}
	return fr
}

func (u *Unit) evalSel(st *State, env *SpecEnv, e *Spec) (Val, error) {
	// qualified identifier pkg.Name
	if e.A.Kind == SIdent {
		_, isVar := env.vars[e.A.Name]
		if _, isFree := env.freePtrs[e.A.Name]; isFree {
			isVar = true // a captured variable shadows a package of the same name
		}
		if !isVar {
			isLocal := false
			if env.useLocals && env.fr != nil && u.findLocal(env.fr, e.A.Name) != nil {
				isLocal = true
			}
			if !isLocal {
				if p := u.findPkg(env, e.A.Name); p != nil {
					if o := p.Scope().Lookup(e.Name); o != nil {
						if v, ok := u.objVal(st, o); ok {
							return v, nil
						}
					}
					return Val{}, fmt.Errorf("cannot resolve %s.%s", e.A.Name, e.Name)
				}
			}
		}
	}
	a, err := u.eval(st, env, e.A)
	if err != nil {
		return Val{}, err
	}
	if a.T == nil {
		return Val{}, fmt.Errorf("selector on untyped value %s", e.A)
	}
	t := a.T
	isPtr := false
	if pt, ok := t.Underlying().(*types.Pointer); ok {
		t = pt.Elem()
		isPtr = true
	}
	st2, ok := t.Underlying().(*types.Struct)
	if !ok {
		return Val{}, fmt.Errorf("selector %s on non-struct %s", e.Name, t)
	}
	// find field (including promoted through embedded structs, one level)
	idx := -1
	for i := 0; i < st2.NumFields(); i++ {
		if st2.Field(i).Name() == e.Name {
			idx = i
		}
	}
	if idx < 0 {
		return Val{}, fmt.Errorf("no field %s in %s", e.Name, t)
	}
	if isPtr {
		p := u.ptrOf(a)
		np := &Ptr{Kind: p.Kind, Ref: p.Ref, Idx: p.Idx, Alloc: p.Alloc, Root: p.Root, Path: append(append([]int(nil), p.Path...), idx)}
		return u.specLoad(st, Val{T: types.NewPointer(st2.Field(idx).Type()), Terms: []Term{"?interior"}, Ptr: np})
	}
	lo, hi, ft := u.eng.fieldRange(t, idx)
	if !flattenableStruct(t) {
		return Val{}, fmt.Errorf("field of opaque struct %s", t)
	}
	return Val{T: ft, Terms: append([]Term(nil), a.Terms[lo:hi]...)}, nil
}

func (u *Unit) evalBinary(st *State, env *SpecEnv, e *Spec) (Val, error) {
	a, err := u.eval(st, env, e.A)
	if err != nil {
		return Val{}, err
	}
	b, err := u.eval(st, env, e.B)
	if err != nil {
		return Val{}, err
	}
	switch e.Op {
	case "&&":
		return boolVal(sAnd(a.Terms[0], b.Terms[0])), nil
	case "||":
		return boolVal(sOr(a.Terms[0], b.Terms[0])), nil
	case "==>":
		return boolVal(sImp(a.Terms[0], b.Terms[0])), nil
	case "<==>":
		return boolVal(sEq(a.Terms[0], b.Terms[0])), nil
	case "==", "!=":
		var t Term
		// nil comparisons
		aNil := a.T != nil && a.T == types.Typ[types.UntypedNil]
		bNil := b.T != nil && b.T == types.Typ[types.UntypedNil]
		switch {
		case aNil && !bNil:
			t = sEq(b.Terms[0], "0")
		case bNil && !aNil:
			t = sEq(a.Terms[0], "0")
		case len(a.Terms) == len(b.Terms):
			var cs []Term
			for i := range a.Terms {
				cs = append(cs, sEq(a.Terms[i], b.Terms[i]))
			}
			t = sAnd(cs...)
		default:
			return Val{}, fmt.Errorf("comparison of values with different shapes: %s", e)
		}
		if e.Op == "!=" {
			t = sNot(t)
		}
		return boolVal(t), nil
	case "<", "<=", ">", ">=":
		if a.T != nil && isString(a.T) {
			switch e.Op {
			case "<":
				return boolVal(fmt.Sprintf("(slt %s %s)", a.Terms[0], b.Terms[0])), nil
			case ">":
				return boolVal(fmt.Sprintf("(slt %s %s)", b.Terms[0], a.Terms[0])), nil
			}
		}
		return boolVal(fmt.Sprintf("(%s %s %s)", e.Op, a.Terms[0], b.Terms[0])), nil
	case "+":
		if a.T != nil && isString(a.T) {
			return Val{T: a.T, Terms: []Term{fmt.Sprintf("(scat %s %s)", a.Terms[0], b.Terms[0])}}, nil
		}
		return intVal(fmt.Sprintf("(+ %s %s)", a.Terms[0], b.Terms[0])), nil
	case "-":
		return intVal(fmt.Sprintf("(- %s %s)", a.Terms[0], b.Terms[0])), nil
	case "*":
		return intVal(fmt.Sprintf("(* %s %s)", a.Terms[0], b.Terms[0])), nil
	case "/":
		return intVal(fmt.Sprintf("(div %s %s)", a.Terms[0], b.Terms[0])), nil
	case "%":
		return intVal(fmt.Sprintf("(mod %s %s)", a.Terms[0], b.Terms[0])), nil
	}
	return Val{}, fmt.Errorf("unknown operator %s", e.Op)
}

func (u *Unit) evalCall(st *State, env *SpecEnv, e *Spec) (Val, error) {
	if e.A != nil {
		return Val{}, fmt.Errorf("method calls are not allowed in specs: %s", e)
	}
	args := func() ([]Val, error) {
		var out []Val
		for _, a := range e.Args {
			v, err := u.eval(st, env, a)
			if err != nil {
				return nil, err
			}
			out = append(out, v)
		}
		return out, nil
	}
	switch e.Name {
	case "len", "cap":
		as, err := args()
		if err != nil {
			return Val{}, err
		}
		if len(as) != 1 || as[0].T == nil {
			return Val{}, fmt.Errorf("bad len/cap")
		}
		switch as[0].T.Underlying().(type) {
		case *types.Basic:
			return intVal(fmt.Sprintf("(slen %s)", as[0].Terms[0])), nil
		case *types.Slice:
			if e.Name == "len" {
				return intVal(as[0].Terms[2]), nil
			}
			return intVal(as[0].Terms[3]), nil
		case *types.Map:
			return intVal(fmt.Sprintf("(select %s %s)", u.heapGet(st, "M_len", "(Array Int Int)"), as[0].Terms[0])), nil
		case *types.Chan:
			if e.Name == "cap" {
				return intVal(fmt.Sprintf("(select %s %s)", u.heapGet(st, "C_cap", "(Array Int Int)"), as[0].Terms[0])), nil
			}
		}
		return Val{}, fmt.Errorf("len of unsupported type %s", as[0].T)
	case "expected":
		as, err := args()
		if err != nil {
			return Val{}, err
		}
		return intVal(fmt.Sprintf("(select %s %s)", u.heapGet(st, "C_expect", "(Array Int Int)"), as[0].Terms[0])), nil
	case "sent", "recvd", "chancap":
		as, err := args()
		if err != nil {
			return Val{}, err
		}
		comp := map[string]string{"sent": "C_sent", "recvd": "C_recvd", "chancap": "C_cap"}[e.Name]
		return intVal(fmt.Sprintf("(select %s %s)", u.heapGet(st, comp, "(Array Int Int)"), as[0].Terms[0])), nil
	case "athead":
		// athead(e), in a loop-step clause: the value e had when the iteration started
		if len(e.Args) != 1 {
			return Val{}, fmt.Errorf("athead(e)")
		}
		if v, ok := env.atHead[e.Args[0].String()]; ok {
			return v, nil
		}
		if st.discover != nil {
			// write-set discovery of a loop: obligations are not recorded, any value will do
			return u.eval(st, env, e.Args[0])
		}
		return Val{}, fmt.Errorf("athead(%s) is only available in loop step clauses", e.Args[0])
	case "now":
		// now(x): the current value of the local variable (or parameter cell) x
		if len(e.Args) != 1 || e.Args[0].Kind != SIdent || env.fr == nil {
			return Val{}, fmt.Errorf("now(x) needs a local variable")
		}
		ne := *env
		ne.vars = map[string]Val{}
		for k, v := range env.vars {
			if k != e.Args[0].Name {
				ne.vars[k] = v
			}
		}
		ne.useLocals = true
		return u.eval(st, &ne, e.Args[0])
	case "deref":
		as, err := args()
		if err != nil {
			return Val{}, err
		}
		pv, err := u.ifacePtr(as[0])
		if err != nil {
			return Val{}, err
		}
		return u.specLoad(st, pv)
	case "firstb", "lastb":
		as, err := args()
		if err != nil {
			return Val{}, err
		}
		return intVal(fmt.Sprintf("(%s %s)", e.Name, as[0].Terms[0])), nil
	case "nosep":
		as, err := args()
		if err != nil {
			return Val{}, err
		}
		return boolVal(fmt.Sprintf("(nosep %s %s)", as[0].Terms[0], as[1].Terms[0])), nil
	case "chr":
		as, err := args()
		if err != nil {
			return Val{}, err
		}
		return Val{T: tStr, Terms: []Term{fmt.Sprintf("(chr %s)", as[0].Terms[0])}}, nil
	case "zero":
		if len(e.Args) != 1 {
			return Val{}, fmt.Errorf("zero(T)")
		}
		t, err := u.resolveType(env, e.Args[0])
		if err != nil {
			return Val{}, err
		}
		return u.zeroVal(t), nil
	case "nlp":
		as, err := args()
		if err != nil {
			return Val{}, err
		}
		return intVal(fmt.Sprintf("(nlp %s %s)", as[0].Terms[0], as[1].Terms[0])), nil
	case "qmarks":
		as, err := args()
		if err != nil {
			return Val{}, err
		}
		return intVal(fmt.Sprintf("(qmarks %s)", as[0].Terms[0])), nil
	case "litcontains", "litqbefore", "litindex", "litcount":
		// evaluated on string LITERALS at VC-generation time
		as, err := args()
		if err != nil {
			return Val{}, err
		}
		lit := func(v Val) (string, bool) {
			if len(v.Terms) != 1 {
				return "", false
			}
			if v.Terms[0] == "str_empty" {
				return "", true
			}
			for k, n := range u.eng.strLits {
				if n == v.Terms[0] {
					return k, true
				}
			}
			return "", false
		}
		a, ok1 := lit(as[0])
		b, ok2 := lit(as[1])
		if !ok1 || !ok2 {
			// not a literal: nothing is known about it - neither the fact nor its negation
			if e.Name == "litcontains" {
				return boolVal(u.fresh(st, "nonlit", "Bool")), nil
			}
			return intVal(u.fresh(st, "nonlit", "Int")), nil
		}
		switch e.Name {
		case "litcontains":
			if strings.Contains(a, b) {
				return boolVal("true"), nil
			}
			return boolVal("false"), nil
		case "litqbefore":
			i := strings.Index(a, b)
			if i < 0 {
				return intVal("(- 1)"), nil
			}
			return intVal(sInt(int64(strings.Count(a[:i], "?")))), nil
		case "litindex":
			return intVal(sInt(int64(strings.Index(a, b)))), nil
		default:
			return intVal(sInt(int64(strings.Count(a, b)))), nil
		}
	case "addr":
		// addr(x): the cell of a local variable of the function under contract that escapes
		// (captured by a closure, or its address taken)
		if len(e.Args) != 1 || e.Args[0].Kind != SIdent {
			return Val{}, fmt.Errorf("addr(localVariable)")
		}
		if env.fr != nil {
			a := u.findLocal(env.fr, e.Args[0].Name)
			if a == nil || !a.Heap {
				// shadowed name: the first escaping variable of that name (a named result, typically)
				fra := u.frameOf(st, env.fr)
				for _, b := range env.fr.fn.Blocks {
					for _, in := range b.Instrs {
						if x, ok := in.(*ssa.Alloc); ok && x.Comment == e.Args[0].Name && x.Heap {
							if _, live := fra.regs[x]; live && (a == nil || !a.Heap || x.Pos() < a.Pos()) {
								a = x
							}
						}
					}
				}
			}
			if a != nil && a.Heap {
				if pv, ok := u.frameOf(st, env.fr).regs[a]; ok {
					return pv, nil
				}
				return Val{T: a.Type(), Terms: []Term{"0"}}, nil
			}
		}
		if pv, ok := env.freePtrs[e.Args[0].Name]; ok {
			return pv, nil
		}
		return Val{}, fmt.Errorf("addr: %s is not an escaping local variable", e.Args[0].Name)
	case "isclo", "capt", "captptr":
		// closures as values: isclo(f, "$3") - f is a closure of anonymous function <root>$3 of the
		// function the contract belongs to; capt(f, "$3", v) - current value of the variable v it
		// captured; captptr(f, "$3", v) - the captured cell itself (== &v in the creator)
		want := 2
		if e.Name != "isclo" {
			want = 3
		}
		if len(e.Args) != want || e.Args[1].Kind != SStr {
			return Val{}, fmt.Errorf("%s(f, \"$N\"%s)", e.Name, map[bool]string{true: ", var", false: ""}[want == 3])
		}
		f, err := u.eval(st, env, e.Args[0])
		if err != nil {
			return Val{}, err
		}
		if len(f.Terms) != 1 {
			return Val{}, fmt.Errorf("%s: not a function value", e.Name)
		}
		root := env.fn
		if root == nil {
			root = u.fn
		}
		for root.Parent() != nil {
			root = root.Parent()
		}
		var target *ssa.Function
		var walk func(fn *ssa.Function)
		walk = func(fn *ssa.Function) {
			for _, a := range fn.AnonFuncs {
				if a.Name() == root.Name()+e.Args[1].Str {
					target = a
				}
				walk(a)
			}
		}
		walk(root)
		if target == nil {
			return Val{}, fmt.Errorf("%s: no anonymous function %s%s", e.Name, root.Name(), e.Args[1].Str)
		}
		if e.Name == "isclo" {
			return boolVal(fmt.Sprintf("(= (fnid %s) %d)", f.Terms[0], u.fnID(target))), nil
		}
		vn := e.Args[2].String()
		for j, fvar := range target.FreeVars {
			if fvar.Name() == vn {
				pv := Val{T: fvar.Type(), Terms: []Term{fmt.Sprintf("(capv %s %d)", f.Terms[0], j)}}
				// a closure that exists in this state captured cells that were allocated before it
				u.noteSideFact(fmt.Sprintf("(=> (= (fnid %s) %d) (and (< 0 %s) (<= %s %s)))", f.Terms[0], u.fnID(target), pv.Terms[0], pv.Terms[0], st.alloc))
				if e.Name == "captptr" {
					return pv, nil
				}
				return u.specLoad(st, pv)
			}
		}
		return Val{}, fmt.Errorf("%s: %s does not capture %s", e.Name, target.Name(), vn)
	case "closureof":
		// closureof(f, Name): Go-side knowledge that f is (a closure of) the named function
		if len(e.Args) != 2 {
			return Val{}, fmt.Errorf("closureof(f, Name)")
		}
		f, err := u.eval(st, env, e.Args[0])
		if err != nil {
			return Val{}, err
		}
		want := e.Args[1].String()
		if os.Getenv("GOVC_DEBUG") != "" {
			fmt.Fprintf(os.Stderr, "closureof: arg=%s fn=%v want=%s\n", e.Args[0], f.Fn, want)
		}
		if f.Fn != nil && (relName(f.Fn.Fn) == want || strings.HasSuffix(fnKey(f.Fn.Fn), want)) {
			return boolVal("true"), nil
		}
		return boolVal("false"), nil
	case "fromglobal":
		// fromglobal(x, pkg.Var): x was produced by reading the named package-level variable
		if len(e.Args) != 2 {
			return Val{}, fmt.Errorf("fromglobal(x, pkg.Var)")
		}
		x, err := u.eval(st, env, e.Args[0])
		if err != nil {
			return Val{}, err
		}
		g := x.Global
		if g == nil && x.Inner != nil {
			g = x.Inner.Global
		}
		want := e.Args[1].String()
		if g != nil && (g.Pkg.Pkg.Name()+"."+g.Name() == want) {
			return boolVal("true"), nil
		}
		return boolVal("false"), nil
	case "lastsent":
		as, err := args()
		if err != nil {
			return Val{}, err
		}
		return u.lastSent(st, as[0])
	case "hist":
		// hist(ch, k): the k-th message received from ch (ghost history)
		as, err := args()
		if err != nil {
			return Val{}, err
		}
		return u.histVal(as[0], as[1].Terms[0])
	case "fresh":
		as, err := args()
		if err != nil {
			return Val{}, err
		}
		old := u.A0
		if env.old != nil {
			old = env.old.alloc
		}
		return boolVal(fmt.Sprintf("(> %s %s)", objRef(as[0]), old)), nil
	case "istype":
		if len(e.Args) != 2 {
			return Val{}, fmt.Errorf("istype(x, T)")
		}
		x, err := u.eval(st, env, e.Args[0])
		if err != nil {
			return Val{}, err
		}
		t, err := u.resolveType(env, e.Args[1])
		if err != nil {
			return Val{}, err
		}
		return boolVal(sEq(x.Terms[0], sInt(int64(u.eng.typeTag(t))))), nil
	case "as":
		// as(x, T): payload of interface x viewed as T
		x, err := u.eval(st, env, e.Args[0])
		if err != nil {
			return Val{}, err
		}
		t, err := u.resolveType(env, e.Args[1])
		if err != nil {
			return Val{}, err
		}
		if pointerLike(t) {
			if len(x.Terms) == 2 {
				// closed heap: an interface value of this dynamic type that exists in this state
				// holds a reference allocated in this state
				u.noteSideFact(fmt.Sprintf("(=> (= %s %d) (and (<= 0 %s) (<= %s %s)))", x.Terms[0], u.eng.typeTag(t), x.Terms[1], x.Terms[1], st.alloc))
			}
			return Val{T: t, Terms: []Term{x.Terms[1]}}, nil
		}
		ls := u.eng.leavesOf(t)
		if len(ls) == 1 {
			_, ub := u.boxFn(ls[0].Sort)
			return Val{T: t, Terms: []Term{fmt.Sprintf("(%s %s)", ub, x.Terms[1])}}, nil
		}
		return Val{}, fmt.Errorf("as(): unsupported type")
	case "isnil":
		as, err := args()
		if err != nil {
			return Val{}, err
		}
		return boolVal(sEq(as[0].Terms[0], "0")), nil
	case "has":
		as, err := args()
		if err != nil {
			return Val{}, err
		}
		return boolVal(u.mapHasPure(st, as[0], as[1])), nil
	case "cat":
		as, err := args()
		if err != nil {
			return Val{}, err
		}
		t := as[0].Terms[0]
		for _, x := range as[1:] {
			t = fmt.Sprintf("(scat %s %s)", t, x.Terms[0])
		}
		return Val{T: tStr, Terms: []Term{t}}, nil
	case "min", "max":
		as, err := args()
		if err != nil {
			return Val{}, err
		}
		op := "<="
		if e.Name == "max" {
			op = ">="
		}
		return intVal(fmt.Sprintf("(ite (%s %s %s) %s %s)", op, as[0].Terms[0], as[1].Terms[0], as[0].Terms[0], as[1].Terms[0])), nil
	}
	// spec macro
	if sf := u.lookupSpec(env, e.Name); sf != nil {
		if env.depth > 40 {
			return Val{}, fmt.Errorf("spec function %s: expansion too deep (recursive?)", e.Name)
		}
		as, err := args()
		if err != nil {
			return Val{}, err
		}
		if len(as) != len(sf.Params) {
			return Val{}, fmt.Errorf("spec function %s: arity", e.Name)
		}
		ne := &SpecEnv{vars: map[string]Val{}, old: env.old, fn: env.fn, pkg: env.pkg, depth: env.depth + 1}
		if sp := u.eng.pkgByPath(sf.Pkg); sp != nil {
			ne.pkg = sp
		}
		for i, p := range sf.Params {
			ne.vars[p.Name] = as[i]
		}
		return u.eval(st, ne, sf.Body)
	}
	if gn, ok := u.eng.cs.GhostFields[e.Name]; ok && len(e.Args) == 1 {
		a, err := u.eval(st, env, e.Args[0])
		if err != nil {
			return Val{}, err
		}
		gs, t, _ := u.specSort(env, gn)
		return Val{T: t, Terms: []Term{fmt.Sprintf("(select %s %s)", u.heapGet(st, "GF_"+e.Name, "(Array Int "+gs+")"), objRef(a))}}, nil
	}
	// ghost (uninterpreted) function
	if gf, ok := u.eng.cs.Ghosts[e.Name]; ok {
		as, err := args()
		if err != nil {
			return Val{}, err
		}
		if len(as) != len(gf.Params) {
			return Val{}, fmt.Errorf("ghost function %s: arity", e.Name)
		}
		var ts []Term
		var sorts []string
		for i, p := range gf.Params {
			s, _, n := u.specSort(env, p)
			if len(as[i].Terms) < n {
				return Val{}, fmt.Errorf("ghost function %s: argument %d has the wrong shape", e.Name, i)
			}
			for k := 0; k < n; k++ {
				ts = append(ts, as[i].Terms[k])
				sorts = append(sorts, s)
			}
		}
		rs, rt, _ := u.specSort(env, gf.Result)
		u.eng.gdecl("ghost_"+gf.Name, fmt.Sprintf("(declare-fun g_%s (%s) %s)", gf.Name, strings.Join(sorts, " "), rs))
		return Val{T: rt, Terms: []Term{sApp("g_"+gf.Name, ts...)}}, nil
	}
	return Val{}, fmt.Errorf("unknown function %q in spec", e.Name)
}

func (u *Unit) lookupSpec(env *SpecEnv, name string) *SpecFunc {
	if env.pkg != nil {
		if sf, ok := u.eng.cs.Specs[env.pkg.Path()+"::"+name]; ok {
			return sf
		}
	}
	if sf, ok := u.eng.cs.Specs[name]; ok {
		return sf
	}
	return nil
}

// assumeClause assumes a contract clause and harvests its positive universally
// quantified parts for explicit instantiation.
func (u *Unit) assumeClause(st *State, env *SpecEnv, e *Spec) error {
	t, err := u.evalBool(st, env, e)
	if err != nil {
		return err
	}
	st.assume(t)
	u.harvest(st, env, e, "true", 0)
	return nil
}

func (u *Unit) harvest(st *State, env *SpecEnv, e *Spec, ante Term, depth int) {
	if depth > 12 || e == nil {
		return
	}
	switch e.Kind {
	case SBinary:
		switch e.Op {
		case "&&":
			u.harvest(st, env, e.A, ante, depth+1)
			u.harvest(st, env, e.B, ante, depth+1)
		case "==>":
			a, err := u.evalBool(st, env, e.A)
			if err != nil {
				return
			}
			u.harvest(st, env, e.B, sAnd(ante, a), depth+1)
		}
	case SUnary:
		if e.Op == "!" {
			u.harvestNeg(st, env, e.A, ante, depth+1)
		}
	case SQuant:
		if e.Op == "exists" && e.B != nil {
			// an assumed existential: name its witness, so that the universally quantified
			// facts on the path can be instantiated at it
			lo, err1 := u.evalInt(st, env, e.B)
			hi, err2 := u.evalInt(st, env, e.C)
			if err1 != nil || err2 != nil {
				return
			}
			sk := u.fresh(st, "wit_"+e.Name, "Int")
			envs := env.with(e.Name, Val{T: tInt, Terms: []Term{sk}})
			body, err := u.evalBool(st, envs, e.A)
			if err != nil {
				return
			}
			st.assume(sImp(ante, sAnd(fmt.Sprintf("(and (<= %s %s) (< %s %s))", lo, sk, sk, hi), body)))
			u.instantiate(st, sk)
			u.harvest(st, envs, e.A, ante, depth+1)
			return
		}
		if e.Op != "forall" || e.B == nil {
			return
		}
		lo, err1 := u.evalInt(st, env, e.B)
		hi, err2 := u.evalInt(st, env, e.C)
		if err1 != nil || err2 != nil {
			return
		}
		u.freshN++
		bv := fmt.Sprintf("qi_%s!%d$", mangle(e.Name), u.freshN)
		envb := env.with(e.Name, Val{T: tInt, Terms: []Term{bv}})
		// nested range forall (possibly under antecedents): a two-variable fact
		{
			inner := e.A
			var ants []*Spec
			for inner != nil && inner.Kind == SBinary && inner.Op == "==>" {
				ants = append(ants, inner.A)
				inner = inner.B
			}
			if inner != nil && inner.Kind == SQuant && inner.Op == "forall" && inner.B != nil {
				lo2, e1 := u.evalInt(st, envb, inner.B)
				hi2, e2 := u.evalInt(st, envb, inner.C)
				if e1 != nil || e2 != nil {
					return
				}
				u.freshN++
				bv2 := fmt.Sprintf("qi_%s!%d$", mangle(inner.Name), u.freshN)
				envbb := envb.with(inner.Name, Val{T: tInt, Terms: []Term{bv2}})
				guard := []Term{fmt.Sprintf("(and (<= %s %s) (< %s %s))", lo, bv, bv, hi), fmt.Sprintf("(and (<= %s %s) (< %s %s))", lo2, bv2, bv2, hi2)}
				for _, a := range ants {
					at, err := u.evalBool(st, envbb, a)
					if err != nil {
						return
					}
					guard = append(guard, at)
				}
				body, err := u.evalBool(st, envbb, inner.A)
				if err != nil {
					return
				}
				q := qfact{ante: ante, bv: bv, bv2: bv2, impl: sImp(sAnd(guard...), body)}
				st.qfacts = append(append([]qfact(nil), st.qfacts...), q)
				for _, a := range st.ixterms {
					for _, b := range st.ixterms {
						st.assume(sImp(q.ante, strings.ReplaceAll(strings.ReplaceAll(q.impl, q.bv, a), q.bv2, b)))
					}
				}
				return
			}
		}
		var coll, side []Term
		savedColl, savedSide := u.ixCollect, u.qSide
		u.ixCollect, u.qSide = &coll, &side
		body, err := u.evalBool(st, envb, e.A)
		u.ixCollect, u.qSide = savedColl, savedSide
		if err != nil {
			return
		}
		if len(side) > 0 {
			seenS := map[Term]bool{}
			var us []Term
			for _, f := range side {
				if !seenS[f] && len(us) < 8 {
					seenS[f] = true
					us = append(us, f)
				}
			}
			body = sAnd(append([]Term{body}, us...)...)
		}
		impl := sImp(fmt.Sprintf("(and (<= %s %s) (< %s %s))", lo, bv, bv, hi), body)
		q := qfact{ante: ante, bv: bv, impl: impl}
		seenD := map[Term]bool{}
		for _, d := range coll {
			if d != bv && strings.Contains(d, bv) && !seenD[d] && len(q.derived) < 4 {
				seenD[d] = true
				q.derived = append(q.derived, d)
			}
		}
		st.qfacts = append(append([]qfact(nil), st.qfacts...), q)
	case SCall:
		if e.A != nil {
			return
		}
		if sf := u.lookupSpec(env, e.Name); sf != nil && len(sf.Params) == len(e.Args) {
			ne := &SpecEnv{vars: map[string]Val{}, old: env.old, fn: env.fn, pkg: env.pkg, depth: env.depth + 1}
			if sp := u.eng.pkgByPath(sf.Pkg); sp != nil {
				ne.pkg = sp
			}
			for i, p := range sf.Params {
				v, err := u.eval(st, env, e.Args[i])
				if err != nil {
					return
				}
				ne.vars[p.Name] = v
			}
			u.harvest(st, ne, sf.Body, ante, depth+1)
			return
		}
		if uf, ok := u.eng.cs.Unfolds[e.Name]; ok && len(uf.Params) == len(e.Args) {
			ne := &SpecEnv{vars: map[string]Val{}, old: env.old, fn: env.fn, pkg: env.pkg, depth: env.depth + 1}
			if p := u.eng.pkgByPath(uf.Pkg); p != nil {
				ne.pkg = p
			}
			for i, p := range uf.Params {
				v, err := u.eval(st, env, e.Args[i])
				if err != nil {
					return
				}
				// typed view of the argument
				if te, perr := ParseSpec(p.Type); perr == nil {
					if rt, rerr := u.resolveType(ne, te); rerr == nil {
						v.T = rt
						v.Ptr = nil
					}
				}
				ne.vars[p.Name] = v
			}
			t, err := u.evalBool(st, ne, uf.Body)
			if err != nil {
				u.fail(fmt.Sprintf("%s: unfold %s: %v", uf.Where, uf.Name, err))
				return
			}
			st.assume(sImp(ante, t))
			u.harvest(st, ne, uf.Body, ante, depth+1)
		}
	}
}

// replaceVar substitutes term t for the variable name v (not for longer names it prefixes).
func replaceVar(s, v string, t Term) string {
	var b strings.Builder
	for {
		i := strings.Index(s, v)
		if i < 0 {
			b.WriteString(s)
			return b.String()
		}
		j := i + len(v)
		if j < len(s) && (s[j] >= '0' && s[j] <= '9') {
			b.WriteString(s[:j])
			s = s[j:]
			continue
		}
		b.WriteString(s[:i])
		b.WriteString(t)
		s = s[j:]
	}
}

// harvestNeg: the assumed clause is the negation of e. not(exists x in r :: A && exists y in r2 :: B)
// becomes a (one- or two-variable) universally quantified fact kept for explicit instantiation.
func (u *Unit) harvestNeg(st *State, env *SpecEnv, e *Spec, ante Term, depth int) {
	var bvs []string
	var guards []Term
	var collect func(env *SpecEnv, e *Spec, depth int) (Term, bool)
	collect = func(env *SpecEnv, e *Spec, depth int) (Term, bool) {
		if depth > 8 || e == nil {
			return "", false
		}
		switch {
		case e.Kind == SQuant && e.Op == "exists" && e.B != nil:
			if len(bvs) >= 2 {
				return "", false
			}
			lo, e1 := u.evalInt(st, env, e.B)
			hi, e2 := u.evalInt(st, env, e.C)
			if e1 != nil || e2 != nil {
				return "", false
			}
			u.freshN++
			bv := fmt.Sprintf("qi_%s!%d$", mangle(e.Name), u.freshN)
			bvs = append(bvs, bv)
			guards = append(guards, fmt.Sprintf("(and (<= %s %s) (< %s %s))", lo, bv, bv, hi))
			return collect(env.with(e.Name, Val{T: tInt, Terms: []Term{bv}}), e.A, depth+1)
		case e.Kind == SBinary && e.Op == "&&":
			a, err := u.evalBool(st, env, e.A)
			if err != nil {
				return "", false
			}
			guards = append(guards, a)
			return collect(env, e.B, depth+1)
		case e.Kind == SCall && e.A == nil:
			if sf := u.lookupSpec(env, e.Name); sf != nil && len(sf.Params) == len(e.Args) {
				ne := &SpecEnv{vars: map[string]Val{}, old: env.old, fn: env.fn, pkg: env.pkg, depth: env.depth + 1}
				if sp := u.eng.pkgByPath(sf.Pkg); sp != nil {
					ne.pkg = sp
				}
				for i, p := range sf.Params {
					v, err := u.eval(st, env, e.Args[i])
					if err != nil {
						return "", false
					}
					ne.vars[p.Name] = v
				}
				return collect(ne, sf.Body, depth+1)
			}
		}
		t, err := u.evalBool(st, env, e)
		if err != nil {
			return "", false
		}
		return sNot(t), true
	}
	saved := u.qSide
	var side []Term
	u.qSide = &side
	body, ok := collect(env, e, depth)
	u.qSide = saved
	if !ok || len(bvs) == 0 {
		return
	}
	q := qfact{ante: ante, bv: bvs[0], impl: sImp(sAnd(guards...), body)}
	if len(bvs) == 2 {
		q.bv2 = bvs[1]
	}
	st.qfacts = append(append([]qfact(nil), st.qfacts...), q)
	for _, a := range st.ixterms {
		if q.bv2 == "" {
			st.assume(sImp(q.ante, strings.ReplaceAll(q.impl, q.bv, a)))
			continue
		}
		for _, b := range st.ixterms {
			st.assume(sImp(q.ante, strings.ReplaceAll(strings.ReplaceAll(q.impl, q.bv, a), q.bv2, b)))
		}
	}
}

// noteSideFact records a fact that is true of every state (closed heap): assumed on the path
// after the current specification expression, or made part of the template when it mentions
// the bound variable of a forall that is being harvested.
func (u *Unit) noteSideFact(fact Term) {
	if u.evalDepth == 0 {
		return
	}
	if strings.Contains(fact, "qi_") {
		if u.qSide != nil && !strings.Contains(fact, "q_") {
			*u.qSide = append(*u.qSide, fact)
		}
		return
	}
	if !strings.Contains(fact, "q_") {
		u.sideFacts = append(u.sideFacts, fact)
	}
}

// instantiate adds the instances of all harvested quantified facts at index term iv.
func (u *Unit) instantiate(st *State, iv Term) {
	u.instantiateAt(st, iv, true)
}

func (u *Unit) instantiateAt(st *State, iv Term, derive bool) {
	known := false
	for _, t := range st.ixterms {
		if t == iv {
			known = true
		}
	}
	var more []Term
	for _, q := range st.qfacts {
		if q.bv2 != "" {
			if known {
				continue
			}
			// two-variable fact: all pairs with the index terms seen so far (most recent 10)
			ts := st.ixterms
			if len(ts) > 10 {
				ts = ts[len(ts)-10:]
			}
			inst := func(a, b Term) {
				st.assume(sImp(q.ante, strings.ReplaceAll(strings.ReplaceAll(q.impl, q.bv, a), q.bv2, b)))
			}
			inst(iv, iv)
			for _, t := range ts {
				inst(iv, t)
				inst(t, iv)
			}
			continue
		}
		st.assume(sImp(q.ante, strings.ReplaceAll(q.impl, q.bv, iv)))
		if derive {
			for _, d := range q.derived {
				more = append(more, strings.ReplaceAll(d, q.bv, iv))
			}
		}
	}
	if !known {
		st.ixterms = append(append([]Term(nil), st.ixterms...), iv)
	}
	for _, m := range more {
		u.instantiateAt(st, m, false)
	}
}

// conjuncts flattens top-level && of a spec expression.
func conjuncts(e *Spec) []*Spec {
	if e != nil && e.Kind == SBinary && e.Op == "&&" {
		return append(conjuncts(e.A), conjuncts(e.B)...)
	}
	return []*Spec{e}
}

func hasRangeForall(e *Spec) bool {
	return hasRangeForallM(nil, nil, e, 0)
}

// hasRangeForallM also looks through spec macros (u, env may be nil: then it does not).
func hasRangeForallM(u *Unit, env *SpecEnv, e *Spec, depth int) bool {
	if depth > 6 {
		return false
	}
	for _, c := range conjuncts(e) {
		if c == nil {
			continue
		}
		if c.Kind == SQuant && c.Op == "forall" && (c.B != nil || c.TypeName == "string" || c.TypeName == "int") {
			return true
		}
		if c.Kind == SBinary && c.Op == "==>" && hasRangeForallM(u, env, c.B, depth+1) {
			return true
		}
		if u != nil && c.Kind == SCall && c.A == nil {
			if sf := u.lookupSpec(env, c.Name); sf != nil && len(sf.Params) == len(c.Args) && hasRangeForallM(u, env, sf.Body, depth+1) {
				return true
			}
		}
	}
	return false
}

// containsQuant: e contains a quantifier, possibly inside a spec macro.
func containsQuant(u *Unit, env *SpecEnv, e *Spec, depth int) bool {
	if e == nil || depth > 8 {
		return false
	}
	if e.Kind == SQuant {
		return true
	}
	if e.Kind == SCall && e.A == nil {
		if sf := u.lookupSpec(env, e.Name); sf != nil && len(sf.Params) == len(e.Args) && containsQuant(u, env, sf.Body, depth+1) {
			return true
		}
	}
	for _, c := range []*Spec{e.A, e.B, e.C} {
		if containsQuant(u, env, c, depth+1) {
			return true
		}
	}
	for _, a := range e.Args {
		if containsQuant(u, env, a, depth+1) {
			return true
		}
	}
	return false
}

// quantAntecedent: some top-level conjunct is an implication whose antecedent contains a
// quantifier (its witnesses / instances are worth naming before the consequent is checked).
func quantAntecedent(u *Unit, env *SpecEnv, e *Spec) bool {
	for _, c := range conjuncts(e) {
		if c != nil && c.Kind == SBinary && c.Op == "==>" && containsQuant(u, env, c.A, 0) {
			return true
		}
	}
	return false
}

// macroEnv binds the parameters of a spec macro to the evaluated arguments of a call.
func (u *Unit) macroEnv(st *State, env *SpecEnv, sf *SpecFunc, call *Spec) (*SpecEnv, error) {
	ne := &SpecEnv{vars: map[string]Val{}, old: env.old, fn: env.fn, pkg: env.pkg, depth: env.depth + 1}
	if sp := u.eng.pkgByPath(sf.Pkg); sp != nil {
		ne.pkg = sp
	}
	for i, p := range sf.Params {
		v, err := u.eval(st, env, call.Args[i])
		if err != nil {
			return nil, err
		}
		ne.vars[p.Name] = v
	}
	return ne, nil
}

func (u *Unit) unfoldOf(e *Spec) *SpecFunc {
	if e == nil || e.Kind != SCall || e.A != nil {
		return nil
	}
	if uf, ok := u.eng.cs.Unfolds[e.Name]; ok && len(uf.Params) == len(e.Args) {
		return uf
	}
	return nil
}

// hasFoldable: a top-level conjunct (possibly under antecedents or range foralls) is a ghost
// predicate with an unfold definition.
func hasFoldable(u *Unit, e *Spec) bool {
	for _, c := range conjuncts(e) {
		if c == nil {
			continue
		}
		if u.unfoldOf(c) != nil {
			return true
		}
		if c.Kind == SBinary && c.Op == "==>" && hasFoldable(u, c.B) {
			return true
		}
		if c.Kind == SQuant && c.Op == "forall" && c.B != nil && hasFoldable(u, c.A) {
			return true
		}
	}
	return false
}

// unfoldEnv binds the parameters of an unfold definition to the (typed) arguments of a call.
func (u *Unit) unfoldEnv(st *State, env *SpecEnv, uf *SpecFunc, call *Spec) (*SpecEnv, error) {
	ne := &SpecEnv{vars: map[string]Val{}, old: env.old, fn: env.fn, pkg: env.pkg, depth: env.depth + 1}
	if p := u.eng.pkgByPath(uf.Pkg); p != nil {
		ne.pkg = p
	}
	for i, p := range uf.Params {
		v, err := u.eval(st, env, call.Args[i])
		if err != nil {
			return nil, err
		}
		if te, perr := ParseSpec(p.Type); perr == nil {
			if rt, rerr := u.resolveType(ne, te); rerr == nil {
				v.T = rt
				v.Ptr = nil
			}
		}
		ne.vars[p.Name] = v
	}
	return ne, nil
}

// obligeClause checks a contract clause. Universally quantified conjuncts (over an index
// range) are skolemised by the generator: a fresh index constant is introduced on a side
// state, the quantified facts known on the path are instantiated at it, and the body is
// checked for that constant - a quantifier-free goal instead of one that depends on the
// solver's trigger selection.
func (u *Unit) obligeClause(st *State, env *SpecEnv, e *Spec, kind, label string, pos token.Pos, human string, props []string, where string) error {
	u.goalEval = true
	full, err := u.evalBool(st, env, e)
	u.goalEval = false
	if err != nil {
		return err
	}
	if st.discover != nil || st.dead {
		return nil
	}
	if !hasRangeForallM(u, env, e, 0) && !hasFoldable(u, e) && !quantAntecedent(u, env, e) {
		u.oblige(st, kind, label, full, pos, human, props, where)
		return nil
	}
	var plain []Term
	folding := false
	var check func(cs *State, cenv *SpecEnv, c *Spec, depth int) error
	check = func(cs *State, cenv *SpecEnv, c *Spec, depth int) error {
		for _, cj := range conjuncts(c) {
			switch {
			case cj.Kind == SQuant && cj.Op == "forall" && cj.B != nil:
				s2 := cs.clone()
				lo, err1 := u.evalInt(s2, cenv, cj.B)
				hi, err2 := u.evalInt(s2, cenv, cj.C)
				if err1 != nil || err2 != nil {
					return fmt.Errorf("%v %v", err1, err2)
				}
				sk := u.fresh(s2, "sk_"+cj.Name, "Int")
				s2.assume(fmt.Sprintf("(and (<= %s %s) (< %s %s))", lo, sk, sk, hi))
				u.instantiate(s2, sk)
				if err := check(s2, cenv.with(cj.Name, Val{T: tInt, Terms: []Term{sk}}), cj.A, depth+1); err != nil {
					return err
				}
			case cj.Kind == SQuant && cj.Op == "forall" && cj.B == nil && (cj.TypeName == "string" || cj.TypeName == "int"):
				// forall over all strings / ints (map keys): a fresh constant of that sort
				s2 := cs.clone()
				sort, bt := "Int", types.Type(tInt)
				if cj.TypeName == "string" {
					sort, bt = "Str", tStr
				}
				sk := u.fresh(s2, "sk_"+cj.Name, sort)
				if err := check(s2, cenv.with(cj.Name, Val{T: bt, Terms: []Term{sk}}), cj.A, depth+1); err != nil {
					return err
				}
			case cj.Kind == SCall && cj.A == nil && !folding && u.unfoldOf(cj) != nil:
				// fold: a ghost predicate with an "unfold" definition may be concluded from its
				// definition (the structures it describes are not modified after they are built:
				// standing assumption). Proved as: assuming it does not hold, its body holds.
				uf := u.unfoldOf(cj)
				p, err := u.evalBool(cs, cenv, cj)
				if err != nil {
					return err
				}
				ne, err := u.unfoldEnv(cs, cenv, uf, cj)
				if err != nil {
					return err
				}
				s2 := cs.clone()
				s2.assume(sNot(p))
				folding = true
				err = check(s2, ne, uf.Body, depth+1)
				folding = false
				if err != nil {
					return err
				}
			case cj.Kind == SCall && cj.A == nil && depth < 8 && u.lookupSpec(cenv, cj.Name) != nil && len(u.lookupSpec(cenv, cj.Name).Params) == len(cj.Args) && hasRangeForallM(u, cenv, u.lookupSpec(cenv, cj.Name).Body, 0):
				// a spec macro whose body has universally quantified conjuncts: check the body
				sf := u.lookupSpec(cenv, cj.Name)
				ne, err := u.macroEnv(cs, cenv, sf, cj)
				if err != nil {
					return err
				}
				if err := check(cs, ne, sf.Body, depth+1); err != nil {
					return err
				}
			case cj.Kind == SBinary && cj.Op == "==>" && (hasRangeForallM(u, cenv, cj.B, 0) || hasFoldable(u, cj.B) || containsQuant(u, cenv, cj.A, 0)):
				a, err := u.evalBool(cs, cenv, cj.A)
				if err != nil {
					return err
				}
				s2 := cs.clone()
				s2.assume(a)
				u.harvest(s2, cenv, cj.A, "true", 0)
				if err := check(s2, cenv, cj.B, depth+1); err != nil {
					return err
				}
			default:
				u.goalEval = true
				t, err := u.evalBool(cs, cenv, cj)
				u.goalEval = false
				if err != nil {
					return err
				}
				if depth == 0 {
					plain = append(plain, t)
				} else if !cs.dead {
					u.recordObl(cs, kind, label, t, pos, human, props, where, t == "true")
				}
			}
		}
		return nil
	}
	if err := check(st, env, e, 0); err != nil {
		return err
	}
	if len(plain) > 0 {
		t := sAnd(plain...)
		u.recordObl(st, kind, label, t, pos, human, props, where, t == "true")
	}
	if plainFull, err := u.evalBool(st, env, e); err == nil {
		st.assume(plainFull)
	} else {
		st.assume(full)
	}
	u.harvest(st, env, e, "true", 0)
	return nil
}
