package main

import (
	"fmt"
	"go/token"
	"go/types"
	"strings"

	"golang.org/x/tools/go/ssa"
)

// Run verifies the unit's function against its contract.
func (u *Unit) Run() {
	defer func() {
		if r := recover(); r != nil {
			u.fail(fmt.Sprintf("%s: generator panic: %v", u.name, r))
		}
	}()
	fn := u.fn
	if fn.Blocks == nil {
		u.fail(u.name + ": function has no body")
		return
	}
	st := &State{heap: map[string]Term{}}
	st.alloc = "A0"
	u.eng.gdecl("A0", "(declare-const A0 Int)")
	st.assume("(<= 0 A0)")
	u.A0 = "A0"
	fr := &Frame{fn: fn, contract: u.contract, regs: map[ssa.Value]Val{}, locals: map[*ssa.Alloc][]Term{}, loops: map[*ssa.BasicBlock]*loopState{}, block: fn.Blocks[0]}
	st.frames = []*Frame{fr}
	for _, p := range fn.Params {
		v := u.freshVal(st, "p_"+p.Name(), p.Type())
		fr.regs[p] = v
		fr.params = append(fr.params, v)
	}
	for _, fv := range fn.FreeVars {
		v := u.freshVal(st, "fv_"+fv.Name(), fv.Type())
		if _, isPtr := fv.Type().Underlying().(*types.Pointer); isPtr {
			// captured variables are cells: never nil, pairwise distinct
			st.assume(fmt.Sprintf("(not (= %s 0))", v.Terms[0]))
			for _, o := range fr.bind {
				if len(o.Terms) == 1 && types.Identical(o.T, v.T) {
					st.assume(fmt.Sprintf("(not (= %s %s))", v.Terms[0], o.Terms[0]))
				}
			}
		}
		fr.bind = append(fr.bind, v)
	}
	u.topParams = fr.params
	// preconditions
	entry := st.clone()
	fr.entry = entry
	u.topEntry = entry
	env := u.contractEnv(st, fr, u.contract, fr.params, fr.bind, nil, entry)
	for _, c := range u.contract.Requires {
		if strings.HasPrefix(c.Label, "creator") {
			continue // checked where the closure is created; speaks about the creator's locals
		}
		if err := u.assumeClause(st, env, c.Expr); err != nil {
			u.fail(fmt.Sprintf("%s: requires %q: %v", c.Where, c.Src, err))
			continue
		}
	}
	// snapshot after preconditions for old()
	*entry = *st.clone()
	entry.frames[0].entry = nil
	fr.entry = entry
	// vacuity: the precondition must be satisfiable
	if !st.dead {
		u.obls = append(u.obls, &Obligation{Name: u.name + "/requires-sat", Kind: "requires-sat", Func: u.name, Props: u.contract.Props,
			Pos: u.eng.posStr(fn.Pos()), Goal: "preconditions are satisfiable", Query: st.pathText() + "(check-sat)\n", Cover: true})
	}
	st.pathID = 1
	u.paths = 1
	u.qfPrelude = "on"
	u.work = append(u.work, st)
	for len(u.work) > 0 {
		s := u.work[len(u.work)-1]
		u.work = u.work[:len(u.work)-1]
		u.runPath(s)
		if u.paths > u.maxPaths {
			u.fail(fmt.Sprintf("%s: path cap %d exceeded", u.name, u.maxPaths))
			return
		}
	}
}

func (u *Unit) fork(st *State) *State {
	ns := st.clone()
	u.paths++
	ns.pathID = u.paths
	return ns
}

func (u *Unit) runPath(st *State) {
	for !st.dead && len(st.frames) > 0 {
		fr := st.top()
		if fr.idx >= len(fr.block.Instrs) {
			u.fail(fmt.Sprintf("%s: fell off block %d", u.name, fr.block.Index))
			return
		}
		instr := fr.block.Instrs[fr.idx]
		fr.idx++
		if !u.exec(st, fr, instr) {
			return
		}
	}
}

func (u *Unit) jump(st *State, fr *Frame, to *ssa.BasicBlock) bool {
	// discovery stops when leaving the loop body in the discovering frame
	if st.discover != nil && len(st.frames) == st.discover.depth && fr.stopAt != nil && !fr.stopAt[to] {
		return false
	}
	li := u.eng.loopsOf(fr.fn)
	if _, isHead := li.body[to]; isHead {
		return u.enterLoopHead(st, fr, to, li)
	}
	fr.prev = fr.block
	fr.block = to
	fr.idx = 0
	u.coverBlock(st, fr, to)
	return true
}

// coverBlock records reachability candidates for every basic block of the function under
// contract (vacuity guard: a block that no satisfiable path reaches is reported).
func (u *Unit) coverBlock(st *State, fr *Frame, b *ssa.BasicBlock) {
	if st.discover != nil || st.dead || len(st.frames) != 1 {
		return
	}
	if u.blockCover == nil {
		u.blockCover = map[int]int{}
	}
	if u.blockCover[b.Index] >= 60 || b.Comment == "yield-invalid" {
		return
	}
	u.blockCover[b.Index]++
	pos := token.NoPos
	for _, in := range b.Instrs {
		if p := in.Pos(); p.IsValid() {
			pos = p
			break
		}
	}
	if txt := u.contract.Opts["dead-ok"]; txt != "" && pos.IsValid() {
		// code that is provably unreachable (defensive guards) is declared as such in the contract
		for _, part := range strings.Split(txt, ";") {
			if part = strings.TrimSpace(part); part != "" && strings.Contains(u.eng.sourceLine(pos), part) {
				return
			}
		}
	}
	u.obls = append(u.obls, &Obligation{Name: fmt.Sprintf("%s/cover-block#%d", u.name, b.Index), Kind: "cover", Func: u.name, Props: u.contract.Props,
		Pos: u.eng.posStr(pos), Goal: fmt.Sprintf("basic block %d (%s) is reachable under the contract's assumptions", b.Index, b.Comment), Query: st.pathText() + "(check-sat)\n", Cover: true, PathID: st.pathID})
}

// exec executes one instruction; returns false when the path ends.
func (u *Unit) exec(st *State, fr *Frame, instr ssa.Instruction) bool {
	switch in := instr.(type) {
	case *ssa.DebugRef:
		return true
	case *ssa.Alloc:
		u.execAlloc(st, fr, in)
	case *ssa.FieldAddr:
		pv := u.val(st, in.X)
		p := u.ptrOf(pv)
		u.nilCheck(st, pv, in.Pos(), "field "+fieldName(in))
		np := &Ptr{Kind: p.Kind, Ref: p.Ref, Idx: p.Idx, Alloc: p.Alloc, Root: p.Root, Path: append(append([]int(nil), p.Path...), in.Field)}
		fr.regs[in] = u.ptrVal(st, in.Type(), np)
	case *ssa.Field:
		xv := u.val(st, in.X)
		lo, hi, ft := u.eng.fieldRange(xv.T, in.Field)
		if !flattenableStruct(xv.T) {
			fr.regs[in] = u.freshVal(st, "fld", ft)
		} else {
			fr.regs[in] = Val{T: ft, Terms: append([]Term(nil), xv.Terms[lo:hi]...)}
		}
	case *ssa.IndexAddr:
		u.execIndexAddr(st, fr, in)
	case *ssa.Index:
		u.execIndex(st, fr, in)
	case *ssa.Lookup:
		u.execLookup(st, fr, in)
	case *ssa.UnOp:
		return u.execUnOp(st, fr, in)
	case *ssa.BinOp:
		u.execBinOp(st, fr, in)
	case *ssa.Store:
		u.store(st, u.val(st, in.Addr), u.val(st, in.Val), in.Pos())
	case *ssa.Phi:
		for i, p := range fr.block.Preds {
			if p == fr.prev {
				fr.regs[in] = u.val(st, in.Edges[i])
				return true
			}
		}
		fr.regs[in] = u.freshVal(st, "phi", in.Type())
	case *ssa.Convert:
		u.execConvert(st, fr, in)
	case *ssa.ChangeType:
		v := u.val(st, in.X)
		v.T = in.Type()
		fr.regs[in] = v
	case *ssa.ChangeInterface:
		v := u.val(st, in.X)
		v.T = in.Type()
		fr.regs[in] = v
	case *ssa.MakeInterface:
		u.execMakeInterface(st, fr, in)
	case *ssa.TypeAssert:
		return u.execTypeAssert(st, fr, in)
	case *ssa.Extract:
		tv := u.val(st, in.Tuple)
		if in.Index < len(tv.Tuple) {
			fr.regs[in] = tv.Tuple[in.Index]
		} else {
			fr.regs[in] = u.freshVal(st, "ext", in.Type())
		}
	case *ssa.Slice:
		u.execSlice(st, fr, in)
	case *ssa.MakeSlice:
		u.execMakeSlice(st, fr, in)
	case *ssa.MakeMap:
		r := u.newRef(st, "map")
		st.assume(fmt.Sprintf("(= (reftype %s) %d)", r, u.refTag(in.Type())))
		u.mapInit(st, in.Type(), r)
		fr.regs[in] = Val{T: in.Type(), Terms: []Term{r}}
	case *ssa.MakeChan:
		r := u.newRef(st, "chan")
		st.assume(fmt.Sprintf("(= (reftype %s) %d)", r, u.refTag(in.Type())))
		sz := u.val(st, in.Size).Terms[0]
		u.chanInit(st, r, sz)
		fr.regs[in] = Val{T: in.Type(), Terms: []Term{r}}
	case *ssa.MakeClosure:
		fn := in.Fn.(*ssa.Function)
		var bind []Val
		for _, b := range in.Bindings {
			bind = append(bind, u.val(st, b))
		}
		id := u.fresh(st, "clo", "Int")
		st.assume(fmt.Sprintf("(< 0 %s)", id))
		cv := Val{T: in.Type(), Terms: []Term{id}, Fn: &FnVal{Fn: fn, Bind: bind}}
		// the closure as a first-class value: which function it is and the cells it captured stay
		// known when it travels through the heap (a slice of callbacks, a struct field)
		st.assume(fmt.Sprintf("(= (fnid %s) %d)", id, u.fnID(fn)))
		for j, b := range bind {
			if len(b.Terms) == 1 && !strings.HasPrefix(b.Terms[0], "?") && u.eng.leavesOf(b.T)[0].Sort == "Int" {
				st.assume(fmt.Sprintf("(= (capv %s %d) %s)", id, j, b.Terms[0]))
			}
		}
		fr.regs[in] = cv
		u.closureCreated(st, fr, cv, in.Pos())
	case *ssa.MapUpdate:
		u.execMapUpdate(st, fr, in)
	case *ssa.Range:
		u.execRange(st, fr, in)
	case *ssa.Next:
		u.execNext(st, fr, in)
	case *ssa.Send:
		return u.execSend(st, fr, in.Chan, u.val(st, in.X), in.Pos())
	case *ssa.Select:
		return u.execSelect(st, fr, in)
	case *ssa.Go:
		return u.execGo(st, fr, in)
	case *ssa.Defer:
		d := deferred{call: in}
		cc := in.Common()
		if !cc.IsInvoke() {
			d.fnv = u.val(st, cc.Value)
		} else {
			d.fnv = u.val(st, cc.Value)
		}
		for _, a := range cc.Args {
			d.args = append(d.args, u.val(st, a))
		}
		fr.defers = append(fr.defers, d)
	case *ssa.RunDefers:
		return u.execRunDefers(st, fr)
	case *ssa.Call:
		return u.execCall(st, fr, in, in.Common(), in)
	case *ssa.Jump:
		return u.jump(st, fr, fr.block.Succs[0])
	case *ssa.If:
		c := u.val(st, in.Cond).Terms[0]
		tb, fb := fr.block.Succs[0], fr.block.Succs[1]
		if c == "true" && st.discover == nil {
			return u.jump(st, fr, tb)
		}
		if c == "false" && st.discover == nil {
			return u.jump(st, fr, fb)
		}
		other := u.fork(st)
		other.assume(sNot(c))
		ofr := other.top()
		if u.feasible(other) && u.jump(other, ofr, fb) {
			u.work = append(u.work, other)
		}
		st.assume(c)
		if !u.feasible(st) {
			return false
		}
		return u.jump(st, fr, tb)
	case *ssa.Return:
		return u.execReturn(st, fr, in)
	case *ssa.Panic:
		if !u.contract.MayPanic {
			u.oblige(st, "panic-unreachable", "", "false", in.Pos(), "explicit panic is unreachable", nil, "")
		}
		return false
	case *ssa.SliceToArrayPointer, *ssa.MultiConvert:
		v := instr.(ssa.Value)
		fr.regs[v] = u.freshVal(st, "conv", v.Type())
		u.abstraction(u.name + ": unsupported conversion havocked")
	default:
		if v, ok := instr.(ssa.Value); ok {
			fr.regs[v] = u.freshVal(st, "unsup", v.Type())
		}
		u.abstraction(fmt.Sprintf("%s: unsupported instruction %T havocked", u.name, instr))
	}
	return true
}

func fieldName(in *ssa.FieldAddr) string {
	st := derefType(in.X.Type()).Underlying().(*types.Struct)
	return st.Field(in.Field).Name()
}

func (u *Unit) newRef(st *State, prefix string) Term {
	r := u.fresh(st, prefix, "Int")
	st.assume(fmt.Sprintf("(= %s (+ %s 1))", r, st.alloc))
	st.alloc = r
	return r
}

func (u *Unit) bumpAlloc(st *State) {
	a := u.fresh(st, "A", "Int")
	st.assume(fmt.Sprintf("(<= %s %s)", st.alloc, a))
	st.alloc = a
}

func (u *Unit) execAlloc(st *State, fr *Frame, in *ssa.Alloc) {
	et := derefType(in.Type())
	if !in.Heap {
		fr.locals[in] = u.zeroVal(et).Terms
		fr.regs[in] = Val{T: in.Type(), Terms: []Term{"?interior"}, Ptr: &Ptr{Kind: PLocal, Alloc: in, Root: et}}
		return
	}
	r := u.newRef(st, "new")
	st.assume(fmt.Sprintf("(= (reftype %s) %d)", r, u.refTag(in.Type())))
	if at, ok := et.Underlying().(*types.Array); ok {
		// backing store for a slice: elements zeroed
		for _, l := range u.eng.leavesOf(at.Elem()) {
			comp := u.compName("E", at.Elem(), l.Suffix)
			as := u.compSort("E", l.Sort)
			h := u.heapGet(st, comp, as)
			u.heapSetAt(st, comp, as, fmt.Sprintf("(store %s %s ((as const (Array Int %s)) %s))", h, r, l.Sort, zeroTerm(l.Sort)), r)
		}
		fr.regs[in] = Val{T: in.Type(), Terms: []Term{r}, Ptr: &Ptr{Kind: PObj, Ref: r, Root: et}}
		return
	}
	p := &Ptr{Kind: PObj, Ref: r, Root: et}
	locs, _ := u.locsOf(p)
	for _, l := range locs {
		h := u.heapGet(st, l.comp, l.arrSort)
		u.heapSetAt(st, l.comp, l.arrSort, fmt.Sprintf("(store %s %s %s)", h, r, zeroTerm(l.sort)), r)
	}
	fr.regs[in] = Val{T: in.Type(), Terms: []Term{r}, Ptr: p}
}

func (u *Unit) nilCheck(st *State, pv Val, pos token.Pos, what string) {
	p := u.ptrOf(pv)
	if p == nil || p.Kind != PObj || len(p.Path) > 0 {
		return
	}
	if strings.HasPrefix(p.Ref, "(- ") { // global
		return
	}
	u.oblige(st, "nil", "", fmt.Sprintf("(not (= %s 0))", p.Ref), pos, "nil dereference: "+what, nil, "")
}

func sliceParts(v Val) (b, o, l, c Term) {
	return v.Terms[0], v.Terms[1], v.Terms[2], v.Terms[3]
}

func (u *Unit) execIndexAddr(st *State, fr *Frame, in *ssa.IndexAddr) {
	xv := u.val(st, in.X)
	iv := u.val(st, in.Index).Terms[0]
	switch xt := in.X.Type().Underlying().(type) {
	case *types.Slice:
		b, o, l, _ := sliceParts(xv)
		u.oblige(st, "index", "", fmt.Sprintf("(and (<= 0 %s) (< %s %s))", iv, iv, l), in.Pos(), "index in range", nil, "")
		u.instantiate(st, iv)
		idx := u.define(st, "ix", "Int", fmt.Sprintf("(+ %s %s)", o, iv))
		fr.regs[in] = u.ptrVal(st, in.Type(), &Ptr{Kind: PElem, Ref: b, Idx: idx, Root: xt.Elem()})
	case *types.Pointer:
		at := xt.Elem().Underlying().(*types.Array)
		p := u.ptrOf(xv)
		u.oblige(st, "index", "", fmt.Sprintf("(and (<= 0 %s) (< %s %d))", iv, iv, at.Len()), in.Pos(), "array index in range", nil, "")
		if p != nil && p.Kind == PObj && len(p.Path) == 0 {
			fr.regs[in] = u.ptrVal(st, in.Type(), &Ptr{Kind: PElem, Ref: p.Ref, Idx: iv, Root: at.Elem()})
		} else {
			// array inside a struct or local array: opaque
			r := u.newRef(st, "arrelem")
			fr.regs[in] = Val{T: in.Type(), Terms: []Term{r}, Ptr: &Ptr{Kind: PObj, Ref: r, Root: at.Elem()}}
			u.abstraction(u.name + ": element of an array value treated as an untracked cell")
		}
	default:
		fr.regs[in] = u.freshVal(st, "ixaddr", in.Type())
	}
}

func (u *Unit) execIndex(st *State, fr *Frame, in *ssa.Index) {
	xv := u.val(st, in.X)
	iv := u.val(st, in.Index).Terms[0]
	if b, ok := in.X.Type().Underlying().(*types.Basic); ok && b.Info()&types.IsString != 0 {
		s := xv.Terms[0]
		u.oblige(st, "index", "", fmt.Sprintf("(and (<= 0 %s) (< %s (slen %s)))", iv, iv, s), in.Pos(), "string index in range", nil, "")
		fr.regs[in] = Val{T: in.Type(), Terms: []Term{fmt.Sprintf("(sat %s %s)", s, iv)}}
		return
	}
	if at, ok := in.X.Type().Underlying().(*types.Array); ok {
		u.oblige(st, "index", "", fmt.Sprintf("(and (<= 0 %s) (< %s %d))", iv, iv, at.Len()), in.Pos(), "array index in range", nil, "")
	}
	fr.regs[in] = u.freshVal(st, "idx", in.Type())
}

func (u *Unit) execUnOp(st *State, fr *Frame, in *ssa.UnOp) bool {
	xv := u.val(st, in.X)
	switch in.Op {
	case token.MUL:
		u.nilCheck(st, xv, in.Pos(), "load")
		fr.regs[in] = u.load(st, xv, in.Pos())
	case token.NOT:
		fr.regs[in] = Val{T: in.Type(), Terms: []Term{sNot(xv.Terms[0])}}
	case token.SUB:
		fr.regs[in] = Val{T: in.Type(), Terms: []Term{fmt.Sprintf("(- %s)", xv.Terms[0])}}
	case token.ARROW:
		return u.execRecv(st, fr, in, xv)
	default:
		fr.regs[in] = u.freshVal(st, "unop", in.Type())
		u.abstraction(u.name + ": bitwise unary operator havocked")
	}
	return true
}

func isString(t types.Type) bool {
	b, ok := t.Underlying().(*types.Basic)
	return ok && b.Info()&types.IsString != 0
}

func isInteger(t types.Type) bool {
	b, ok := t.Underlying().(*types.Basic)
	return ok && b.Info()&types.IsInteger != 0
}

func isUnsigned(t types.Type) bool {
	b, ok := t.Underlying().(*types.Basic)
	return ok && b.Info()&types.IsUnsigned != 0
}

func (u *Unit) eqVals(a, b Val) Term {
	if len(a.Terms) != len(b.Terms) {
		// interface vs concrete comparisons are normalised by the SSA builder; fall back
		return "false"
	}
	var cs []Term
	for i := range a.Terms {
		cs = append(cs, sEq(a.Terms[i], b.Terms[i]))
	}
	return sAnd(cs...)
}

func (u *Unit) execBinOp(st *State, fr *Frame, in *ssa.BinOp) {
	x, y := u.val(st, in.X), u.val(st, in.Y)
	x, y = u.materialize(st, x), u.materialize(st, y)
	t := in.X.Type()
	res := func(s string) { fr.regs[in] = Val{T: in.Type(), Terms: []Term{s}} }
	switch in.Op {
	case token.EQL:
		if _, ok := t.Underlying().(*types.Slice); ok { // s == nil
			res(sEq(x.Terms[0], y.Terms[0]))
			return
		}
		res(u.eqVals(x, y))
		return
	case token.NEQ:
		if _, ok := t.Underlying().(*types.Slice); ok {
			res(sNot(sEq(x.Terms[0], y.Terms[0])))
			return
		}
		res(sNot(u.eqVals(x, y)))
		return
	}
	a, b := x.Terms[0], y.Terms[0]
	if isString(t) {
		switch in.Op {
		case token.ADD:
			res(fmt.Sprintf("(scat %s %s)", a, b))
		case token.LSS:
			res(fmt.Sprintf("(slt %s %s)", a, b))
		case token.GTR:
			res(fmt.Sprintf("(slt %s %s)", b, a))
		case token.LEQ:
			res(fmt.Sprintf("(not (slt %s %s))", b, a))
		case token.GEQ:
			res(fmt.Sprintf("(not (slt %s %s))", a, b))
		default:
			fr.regs[in] = u.freshVal(st, "strop", in.Type())
		}
		return
	}
	if bt, ok := t.Underlying().(*types.Basic); ok && bt.Info()&types.IsBoolean != 0 {
		switch in.Op {
		case token.AND, token.LAND:
			res(sAnd(a, b))
		case token.OR, token.LOR:
			res(sOr(a, b))
		default:
			fr.regs[in] = u.freshVal(st, "boolop", in.Type())
		}
		return
	}
	switch in.Op {
	case token.ADD:
		res(fmt.Sprintf("(+ %s %s)", a, b))
	case token.SUB:
		res(fmt.Sprintf("(- %s %s)", a, b))
	case token.MUL:
		res(fmt.Sprintf("(* %s %s)", a, b))
	case token.QUO:
		if isInteger(t) {
			u.oblige(st, "div0", "", fmt.Sprintf("(not (= %s 0))", b), in.Pos(), "division by zero", nil, "")
			// Go truncates toward zero
			res(fmt.Sprintf("(ite (>= %s 0) (div %s %s) (- (div (- %s) %s)))", a, a, b, a, b))
		} else {
			res(fmt.Sprintf("(/ %s %s)", a, b))
		}
	case token.REM:
		u.oblige(st, "div0", "", fmt.Sprintf("(not (= %s 0))", b), in.Pos(), "division by zero", nil, "")
		res(fmt.Sprintf("(ite (>= %s 0) (mod %s (abs %s)) (- (mod (- %s) (abs %s))))", a, a, b, a, b))
	case token.LSS:
		res(fmt.Sprintf("(< %s %s)", a, b))
	case token.LEQ:
		res(fmt.Sprintf("(<= %s %s)", a, b))
	case token.GTR:
		res(fmt.Sprintf("(> %s %s)", a, b))
	case token.GEQ:
		res(fmt.Sprintf("(>= %s %s)", a, b))
	default:
		fr.regs[in] = u.freshVal(st, "bitop", in.Type())
		u.abstraction(u.name + ": bitwise/shift operator havocked")
	}
}

func (u *Unit) execConvert(st *State, fr *Frame, in *ssa.Convert) {
	xv := u.val(st, in.X)
	from, to := in.X.Type().Underlying(), in.Type().Underlying()
	fb, fok := from.(*types.Basic)
	tb, tok := to.(*types.Basic)
	if fok && tok {
		switch {
		case fb.Info()&types.IsInteger != 0 && tb.Info()&types.IsInteger != 0:
			// exact when the source range fits, else havoc within the target range
			x := xv.Terms[0]
			lo, hi, ok := intRange(tb)
			if ok {
				r := u.fresh(st, "cv", "Int")
				st.assume(fmt.Sprintf("(and (<= %s %s) (<= %s %s) (=> (and (<= %s %s) (<= %s %s)) (= %s %s)))", lo, r, r, hi, lo, x, x, hi, r, x))
				fr.regs[in] = Val{T: in.Type(), Terms: []Term{r}}
				return
			}
			fr.regs[in] = Val{T: in.Type(), Terms: []Term{x}}
			return
		case fb.Info()&types.IsString != 0 && tb.Info()&types.IsString != 0:
			fr.regs[in] = Val{T: in.Type(), Terms: xv.Terms}
			return
		case fb.Info()&types.IsInteger != 0 && tb.Info()&types.IsString != 0:
			// string(rune)
			r := u.freshVal(st, "runestr", in.Type())
			st.assume(fmt.Sprintf("(and (<= 1 (slen %s)) (<= (slen %s) 4))", r.Terms[0], r.Terms[0]))
			fr.regs[in] = r
			return
		case fb.Info()&types.IsInteger != 0 && tb.Info()&types.IsFloat != 0:
			fr.regs[in] = Val{T: in.Type(), Terms: []Term{fmt.Sprintf("(to_real %s)", xv.Terms[0])}}
			return
		}
	}
	if fok && fb.Info()&types.IsString != 0 {
		if _, ok := to.(*types.Slice); ok {
			// []byte(s) / []rune(s)
			r := u.freshVal(st, "bytes", in.Type())
			if sl, ok := to.(*types.Slice); ok && isByte(sl.Elem()) {
				st.assume(fmt.Sprintf("(= %s (slen %s))", r.Terms[2], xv.Terms[0]))
			} else {
				st.assume(fmt.Sprintf("(<= %s (slen %s))", r.Terms[2], xv.Terms[0]))
			}
			st.assume(fmt.Sprintf("(< 0 %s)", r.Terms[0]))
			fr.regs[in] = r
			return
		}
	}
	if tok && tb.Info()&types.IsString != 0 {
		if sl, ok := from.(*types.Slice); ok {
			r := u.freshVal(st, "str", in.Type())
			if isByte(sl.Elem()) {
				st.assume(fmt.Sprintf("(= (slen %s) %s)", r.Terms[0], xv.Terms[2]))
			}
			fr.regs[in] = r
			return
		}
	}
	if len(u.eng.leavesOf(in.Type())) == len(xv.Terms) {
		fr.regs[in] = Val{T: in.Type(), Terms: xv.Terms, Ptr: xv.Ptr}
		return
	}
	fr.regs[in] = u.freshVal(st, "conv", in.Type())
	u.abstraction(u.name + ": conversion " + from.String() + " -> " + to.String() + " havocked")
}

func isByte(t types.Type) bool {
	b, ok := t.Underlying().(*types.Basic)
	return ok && (b.Kind() == types.Uint8)
}

// ---------------------------------------------------------------------------
// interfaces

func pointerLike(t types.Type) bool {
	switch t.Underlying().(type) {
	case *types.Pointer, *types.Map, *types.Chan, *types.Signature:
		return true
	}
	return false
}

func (u *Unit) boxFn(sort string) (string, string) {
	switch sort {
	case "Str", "Int", "Bool":
		return "box_" + sort, "unbox_" + sort
	}
	b, ub := "box_"+sort, "unbox_"+sort
	u.eng.gdecl(b, fmt.Sprintf("(declare-fun %s (%s) Int)", b, sort))
	u.eng.gdecl(ub, fmt.Sprintf("(declare-fun %s (Int) %s)", ub, sort))
	u.eng.gdecl(b+"_ax", fmt.Sprintf("(assert (forall ((x %s)) (! (= (%s (%s x)) x) :pattern ((%s x)))))", sort, ub, b, b))
	return b, ub
}

func (u *Unit) execMakeInterface(st *State, fr *Frame, in *ssa.MakeInterface) {
	xv := u.materialize(st, u.val(st, in.X))
	xt := in.X.Type()
	tag := sInt(int64(u.eng.typeTag(xt)))
	var val Term
	if pointerLike(xt) {
		val = xv.Terms[0]
	} else if len(xv.Terms) == 1 {
		ls := u.eng.leavesOf(xt)
		b, _ := u.boxFn(ls[0].Sort)
		val = fmt.Sprintf("(%s %s)", b, xv.Terms[0])
	} else {
		// multi-leaf struct boxed by value: identity is a fresh box whose leaves unbox
		val = u.fresh(st, "box", "Int")
		ls := u.eng.leavesOf(xt)
		for i, l := range ls {
			fn := fmt.Sprintf("unboxs_%s_%d", mangle(stripMod(typeKey(xt))), i)
			u.eng.gdecl(fn, fmt.Sprintf("(declare-fun %s (Int) %s)", fn, l.Sort))
			st.assume(fmt.Sprintf("(= (%s %s) %s)", fn, val, xv.Terms[i]))
		}
	}
	inner := xv
	fr.regs[in] = Val{T: in.Type(), Terms: []Term{tag, val}, Dyn: xt, Inner: &inner}
}

func (u *Unit) unboxAs(st *State, iv Val, t types.Type) Val {
	if iv.Inner != nil && iv.Dyn != nil && types.Identical(iv.Dyn, t) {
		r := *iv.Inner
		r.T = t
		return r
	}
	val := iv.Terms[1]
	if pointerLike(t) {
		return Val{T: t, Terms: []Term{val}}
	}
	ls := u.eng.leavesOf(t)
	if len(ls) == 1 {
		_, ub := u.boxFn(ls[0].Sort)
		return Val{T: t, Terms: []Term{fmt.Sprintf("(%s %s)", ub, val)}}
	}
	ts := make([]Term, len(ls))
	for i, l := range ls {
		fn := fmt.Sprintf("unboxs_%s_%d", mangle(stripMod(typeKey(t))), i)
		u.eng.gdecl(fn, fmt.Sprintf("(declare-fun %s (Int) %s)", fn, l.Sort))
		ts[i] = fmt.Sprintf("(%s %s)", fn, val)
	}
	v := Val{T: t, Terms: ts}
	u.assumeTyping(st, v)
	return v
}

func (u *Unit) execTypeAssert(st *State, fr *Frame, in *ssa.TypeAssert) bool {
	xv := u.val(st, in.X)
	tag := xv.Terms[0]
	at := in.AssertedType
	var okT Term
	var res Val
	if _, isIface := at.Underlying().(*types.Interface); isIface {
		if xv.Dyn != nil {
			if types.Implements(xv.Dyn, at.Underlying().(*types.Interface)) {
				okT = "true"
			} else {
				okT = "false"
			}
		} else {
			ok := u.fresh(st, "implok", "Bool")
			st.assume(fmt.Sprintf("(=> %s (not (= %s 0)))", ok, tag))
			// a non-nil value whose static interface type already implements the target always succeeds
			if si, isI := in.X.Type().Underlying().(*types.Interface); isI && types.Implements(si, at.Underlying().(*types.Interface)) {
				st.assume(fmt.Sprintf("(= %s (not (= %s 0)))", ok, tag))
			}
			okT = ok
		}
		res = Val{T: at, Terms: []Term{tag, xv.Terms[1]}, Dyn: xv.Dyn, Inner: xv.Inner}
	} else {
		okT = sEq(tag, sInt(int64(u.eng.typeTag(at))))
		if xv.Dyn != nil {
			if types.Identical(xv.Dyn, at) {
				okT = "true"
			} else {
				okT = "false"
			}
		}
		res = u.unboxAs(st, xv, at)
	}
	if in.CommaOk {
		// on failure the value is the zero value
		z := u.zeroVal(at)
		var sel Val
		if okT == "true" {
			sel = res
		} else if okT == "false" {
			sel = z
		} else if len(z.Terms) == len(res.Terms) {
			ts := make([]Term, len(res.Terms))
			for i := range ts {
				ts[i] = sIte(okT, res.Terms[i], z.Terms[i])
			}
			sel = Val{T: at, Terms: ts, Dyn: res.Dyn, Inner: res.Inner}
		} else {
			sel = res
		}
		okv := Val{T: types.Typ[types.Bool], Terms: []Term{okT}}
		fr.regs[in] = Val{T: in.Type(), Tuple: []Val{sel, okv}}
		return true
	}
	u.oblige(st, "assert-type", "", okT, in.Pos(), "type assertion to "+shortTypeKey(at)+" succeeds", nil, "")
	fr.regs[in] = res
	return !st.dead
}

// ---------------------------------------------------------------------------
// slices

func (u *Unit) execSlice(st *State, fr *Frame, in *ssa.Slice) {
	xv := u.val(st, in.X)
	var lo, hi Term = "0", ""
	if in.Low != nil {
		lo = u.val(st, in.Low).Terms[0]
	}
	if in.High != nil {
		hi = u.val(st, in.High).Terms[0]
	}
	switch xt := in.X.Type().Underlying().(type) {
	case *types.Basic: // string
		s := xv.Terms[0]
		if hi == "" {
			hi = fmt.Sprintf("(slen %s)", s)
		}
		u.oblige(st, "slice", "", fmt.Sprintf("(and (<= 0 %s) (<= %s %s) (<= %s (slen %s)))", lo, lo, hi, hi, s), in.Pos(), "string slice bounds", nil, "")
		fr.regs[in] = Val{T: in.Type(), Terms: []Term{u.define(st, "sub", "Str", fmt.Sprintf("(ssub %s %s %s)", s, lo, hi))}}
	case *types.Slice:
		b, o, l, c := sliceParts(xv)
		if hi == "" {
			hi = l
		}
		max := c
		if in.Max != nil {
			max = u.val(st, in.Max).Terms[0]
		}
		u.oblige(st, "slice", "", fmt.Sprintf("(and (<= 0 %s) (<= %s %s) (<= %s %s) (<= %s %s))", lo, lo, hi, hi, max, max, c), in.Pos(), "slice bounds", nil, "")
		no := u.define(st, "so", "Int", fmt.Sprintf("(+ %s %s)", o, lo))
		nl := u.define(st, "sl", "Int", fmt.Sprintf("(- %s %s)", hi, lo))
		nc := u.define(st, "sc", "Int", fmt.Sprintf("(- %s %s)", max, lo))
		fr.regs[in] = Val{T: in.Type(), Terms: []Term{b, no, nl, nc}}
	case *types.Pointer: // pointer to array
		at := xt.Elem().Underlying().(*types.Array)
		n := fmt.Sprintf("%d", at.Len())
		if hi == "" {
			hi = n
		}
		p := u.ptrOf(xv)
		u.oblige(st, "slice", "", fmt.Sprintf("(and (<= 0 %s) (<= %s %s) (<= %s %s))", lo, lo, hi, hi, n), in.Pos(), "array slice bounds", nil, "")
		if p != nil && p.Kind == PObj && len(p.Path) == 0 {
			sv := Val{T: in.Type(), Terms: []Term{p.Ref, lo, u.define(st, "sl", "Int", fmt.Sprintf("(- %s %s)", hi, lo)), u.define(st, "sc", "Int", fmt.Sprintf("(- %s %s)", n, lo))}}
			if in.Low == nil && in.High == nil && at.Len() <= 32 {
				var elems []Val
				for k := int64(0); k < at.Len(); k++ {
					ev, ok := st.info["A"+p.Ref+"|"+sInt(k)]
					if !ok {
						elems = nil
						break
					}
					elems = append(elems, ev)
				}
				sv.Elems = elems
			}
			fr.regs[in] = sv
		} else {
			fr.regs[in] = u.freshVal(st, "arrslice", in.Type())
		}
	default:
		fr.regs[in] = u.freshVal(st, "slice", in.Type())
	}
}

func (u *Unit) execMakeSlice(st *State, fr *Frame, in *ssa.MakeSlice) {
	l := u.val(st, in.Len).Terms[0]
	c := u.val(st, in.Cap).Terms[0]
	// existing slices hold at most 2^40 elements (typing assumption); a make() whose size is not
	// bounded by something that exists (e.g. a number taken from a request) can exhaust memory or
	// panic with "cap out of range"
	u.oblige(st, "makeslice", "", fmt.Sprintf("(and (<= 0 %s) (<= %s %s) (<= %s 281474976710656))", l, l, c, c), in.Pos(), "make: 0 <= len <= cap <= 2^48", nil, "")
	r := u.newRef(st, "mk")
	et := in.Type().Underlying().(*types.Slice).Elem()
	for _, lf := range u.eng.leavesOf(et) {
		comp := u.compName("E", et, lf.Suffix)
		as := u.compSort("E", lf.Sort)
		h := u.heapGet(st, comp, as)
		u.heapSetAt(st, comp, as, fmt.Sprintf("(store %s %s ((as const (Array Int %s)) %s))", h, r, lf.Sort, zeroTerm(lf.Sort)), r)
	}
	fr.regs[in] = Val{T: in.Type(), Terms: []Term{r, "0", l, c}}
}

// elemLocs returns the element locations of slice element idx (absolute index).
func (u *Unit) elemLocs(et types.Type, base, idx Term) []loc {
	locs, _ := u.locsOf(&Ptr{Kind: PElem, Ref: base, Idx: idx, Root: et})
	return locs
}

// feasible prunes syntactically possible but contradictory branches once a function has
// many paths (quantifier-free check; "unknown" keeps the path).
func (u *Unit) feasible(st *State) bool {
	if st.discover != nil || u.paths < 24 || st.dead {
		return !st.dead
	}
	if u.qfPrelude == "" {
		return true
	}
	q := u.eng.PreludeQF() + stripQuantified(st.pathText()) + "(check-sat)\n"
	r := runSolver(solvers[0], q, 2000, false)
	u.pruneCalls++
	if r.Verdict == "unsat" {
		u.pruned++
		return false
	}
	return true
}
