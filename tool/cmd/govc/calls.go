package main

import (
	"fmt"
	"regexp"
	"go/token"
	"go/types"
	"strings"

	"golang.org/x/tools/go/ssa"
)

const maxInlineDepth = 8

// contractFor finds the contract block of a function.
func (e *Engine) contractFor(fn *ssa.Function) *FuncContract {
	if c, ok := e.cs.Funcs[fnKey(fn)]; ok {
		return c
	}
	if fn.Origin() != nil {
		if c, ok := e.cs.Funcs[fnKey(fn.Origin())]; ok {
			return c
		}
	}
	return nil
}

func ifaceMethodKey(recv types.Type, m *types.Func) (string, string) {
	pkg := ""
	name := shortTypeKey(recv)
	if n, ok := types.Unalias(recv).(*types.Named); ok {
		if n.Obj().Pkg() != nil {
			pkg = n.Obj().Pkg().Path()
		}
		name = n.Obj().Name()
	} else if m.Pkg() != nil {
		pkg = m.Pkg().Path()
		if _, isIface := recv.Underlying().(*types.Interface); isIface {
			// an unnamed interface type (interface{ Transaction(...) error }): keyed by the
			// package that declares the method, as "interface.<Method>"
			name = "interface"
		}
	}
	return pkg, name + "." + m.Name()
}

func (u *Unit) setResult(st *State, fr *Frame, v ssa.Value, res Val) {
	if v != nil {
		fr.regs[v] = res
	}
}

func packResults(sig *types.Signature, rs []Val) Val {
	switch len(rs) {
	case 0:
		return Val{T: sig.Results()}
	case 1:
		return rs[0]
	}
	v := Val{T: sig.Results(), Tuple: rs}
	for _, r := range rs {
		v.Terms = append(v.Terms, r.Terms...)
	}
	return v
}

// execCall handles call instructions (value may be nil for deferred calls).
func (u *Unit) execCall(st *State, fr *Frame, instr ssa.Instruction, cc *ssa.CallCommon, resv ssa.Value) bool {
	var args []Val
	type alias struct {
		orig, copy Val
		before     map[string]Term // heap versions of the snapshot's components right after the copy-in
	}
	var aliases []alias
	for _, a := range cc.Args {
		ov := u.val(st, a)
		mv := u.materialize(st, ov)
		if len(ov.Terms) == 1 && ov.Terms[0] == "?interior" && ov.Ptr != nil && mv.Ptr != nil && mv.Ptr.Kind == PObj {
			al := alias{orig: ov, copy: mv, before: map[string]Term{}}
			if locs, _ := u.locsOf(mv.Ptr); len(locs) > 0 {
				for _, l := range locs {
					al.before[l.comp] = u.heapGet(st, l.comp, l.arrSort)
				}
			}
			aliases = append(aliases, al)
		}
		args = append(args, mv)
	}
	nframes := len(st.frames)
	// copy-out: what the callee did to the snapshot of an interior location (a method called on
	// an embedded struct field, &s.f passed down) is written back when the call has completed
	copyOut := func(ok bool) bool {
		if !ok || len(st.frames) != nframes || st.dead {
			return ok
		}
		for _, al := range aliases {
			changed := false
			if locs, _ := u.locsOf(al.copy.Ptr); len(locs) > 0 {
				for _, l := range locs {
					if u.heapGet(st, l.comp, l.arrSort) != al.before[l.comp] {
						changed = true
					}
				}
			}
			if !changed {
				continue // the callee did not write any component of the snapshot
			}
			nv := u.load(st, al.copy, token.NoPos)
			u.store(st, al.orig, nv, cc.Pos())
		}
		return ok
	}
	if cc.IsInvoke() {
		recv := u.val(st, cc.Value)
		return copyOut(u.callInvoke(st, fr, instr, cc, recv, args, resv))
	}
	if b, ok := cc.Value.(*ssa.Builtin); ok {
		return u.callBuiltin(st, fr, instr, b, cc, args, resv)
	}
	fv := u.val(st, cc.Value)
	return copyOut(u.callValue(st, fr, instr, fv, args, cc.Signature(), resv, cc.Pos()))
}

func (u *Unit) callValue(st *State, fr *Frame, instr ssa.Instruction, fv Val, args []Val, sig *types.Signature, resv ssa.Value, pos token.Pos) bool {
	if fv.Fn == nil {
		// unknown function value
		if len(fv.Terms) > 0 {
			u.oblige(st, "nil", "fn", sNot(sEq(fv.Terms[0], "0")), pos, "call of nil function value", nil, "")
		}
		if _, has := u.eng.cs.Funcs[sigKey(sig)]; !has {
			if fnv, handled, cont := u.dispatchClosure(st, fr, instr, fv, sig, pos); handled {
				if !cont {
					return false
				}
				fv.Fn = fnv
			}
		}
		if fv.Fn == nil {
			return u.callFuncValue(st, fr, instr, fv, args, sig, resv, pos)
		}
	}
	fn := fv.Fn.Fn
	u.callSiteClauses(st, fr, relName(fn), args, pos)
	if fnKey(fn) == "fmt::Sprintf" && u.modelSprintf(st, fr, args, resv) {
		return true
	}
	c := u.eng.contractFor(fn)
	if c != nil && !c.Inline && !(u.contract.Opts["inline-all"] != "" && !c.Trusted && u.canInline(st, fn)) {
		return u.callContract(st, fr, fn, c, args, fv.Fn.Bind, resv, pos)
	}
	if u.canInline(st, fn) {
		return u.pushInline(st, fr, fn, args, fv.Fn.Bind, instr)
	}
	u.havocCall(st, fr, fn.String(), sig, args, resv, pos)
	return true
}

func (u *Unit) canInline(st *State, fn *ssa.Function) bool {
	if fn.Blocks == nil {
		return false
	}
	pp := fnPkgPath(fn)
	if !strings.HasPrefix(pp, repoMod) && !inlineExternal[fnKey(fn)] {
		return false
	}
	if len(st.frames) >= maxInlineDepth {
		return false
	}
	for _, f := range st.frames {
		if f.fn == fn {
			return false
		}
	}
	return true
}

func (u *Unit) pushInline(st *State, fr *Frame, fn *ssa.Function, args []Val, bind []Val, instr ssa.Instruction) bool {
	u.inlined[fnKey(fn)] = true
	nf := &Frame{fn: fn, contract: u.eng.contractFor(fn), regs: map[ssa.Value]Val{}, locals: map[*ssa.Alloc][]Term{},
		loops: map[*ssa.BasicBlock]*loopState{}, block: fn.Blocks[0], retInstr: instr, bind: bind}
	if nf.contract == nil {
		nf.contract = &FuncContract{Loops: map[int]*LoopSpec{}, Props: u.contract.Props}
	}
	for i, p := range fn.Params {
		if i < len(args) {
			a := args[i]
			a.T = p.Type()
			nf.regs[p] = a
			nf.params = append(nf.params, a)
		}
	}
	st.frames = append(st.frames, nf)
	return true
}

func (u *Unit) execReturn(st *State, fr *Frame, in *ssa.Return) bool {
	var rs []Val
	for _, r := range in.Results {
		rs = append(rs, u.materialize(st, u.val(st, r)))
	}
	return u.finishReturn(st, fr, rs, in.Pos())
}

func (u *Unit) finishReturn(st *State, fr *Frame, rs []Val, pos token.Pos) bool {
	if len(st.frames) == 1 {
		if st.discover != nil {
			return false
		}
		u.checkPost(st, fr, rs, pos)
		return false
	}
	// inlined callee returns
	st.frames = st.frames[:len(st.frames)-1]
	caller := st.top()
	if fr.deferRet {
		// continue running the caller's defers
		return u.execRunDefers(st, caller)
	}
	if v, ok := fr.retInstr.(ssa.Value); ok {
		caller.regs[v] = packResults(fr.fn.Signature, rs)
	}
	return true
}

func (u *Unit) execRunDefers(st *State, fr *Frame) bool {
	for len(fr.defers) > 0 {
		d := fr.defers[len(fr.defers)-1]
		fr.defers = fr.defers[:len(fr.defers)-1]
		cc := d.call.Common()
		if cc.IsInvoke() {
			// deferred interface call: evaluate as call without result
			ok := u.callInvoke(st, fr, d.call, cc, d.fnv, d.args, nil)
			if !ok {
				return false
			}
			continue
		}
		if b, isB := cc.Value.(*ssa.Builtin); isB {
			if !u.callBuiltin(st, fr, d.call, b, cc, d.args, nil) {
				return false
			}
			continue
		}
		nframes := len(st.frames)
		if !u.callValue(st, fr, d.call, d.fnv, d.args, cc.Signature(), nil, d.call.Pos()) {
			return false
		}
		if len(st.frames) > nframes {
			// inlined: mark so that its return resumes the defer loop
			st.top().deferRet = true
			return true
		}
	}
	return true
}

// checkPost emits the postcondition obligations at a return of the top function.
func (u *Unit) checkPost(st *State, fr *Frame, rs []Val, pos token.Pos) {
	env := u.contractEnvFn(fr.fn, fr.params, fr.bind, rs, fr.entry)
	// locals are visible in postconditions (final values); parameters keep their entry values
	env.fr = fr
	env.useLocals = true
	env.localsAfterVars = true
	// ghost code: assignments to ghost variables at the return
	for _, gu := range u.contract.Updates {
		srt, ok := u.eng.ghostVars[gu.Var]
		if !ok {
			u.fail(fmt.Sprintf("%s: ghost-at-return: unknown ghost variable %s", gu.Where, gu.Var))
			continue
		}
		v, err := u.eval(st, env, gu.Expr)
		if err != nil || len(v.Terms) != 1 {
			u.fail(fmt.Sprintf("%s: ghost-at-return %s: %v", gu.Where, gu.Var, err))
			continue
		}
		u.frameCheckGhost(st, "G_"+gu.Var, pos)
		u.heapSet(st, "G_"+gu.Var, srt, v.Terms[0])
	}
	// abandon-safety: every send that a spawned goroutine still owes fits into its channel
	seen := map[Term]bool{}
	for _, ch := range st.expectChans {
		if seen[ch] {
			continue
		}
		seen[ch] = true
		goal := fmt.Sprintf("(<= (- (- (select %s %s) %s) (select %s %s)) %s)", u.heapGet(st, "C_expect", chanArr), ch, u.chanGet(st, "C_recvd", ch), u.heapGet(st, "C_drain", chanArr), ch, u.chanGet(st, "C_cap", ch))
		u.oblige(st, "chan-abandon", "", goal, pos, "sends still owed by spawned goroutines fit into the channel buffer (no goroutine blocks forever)", u.contract.abandonProps(), "")
	}
	for i, c := range u.contract.Ensures {
		label := c.Label
		if label == "" {
			label = fmt.Sprintf("%d", i+1)
		}
		if err := u.obligeClause(st, env, c.Expr, "post", label, pos, "ensures "+c.Src, c.Props, c.Where); err != nil {
			u.fail(fmt.Sprintf("%s: ensures %q: %v", c.Where, c.Src, err))
			continue
		}
	}
	// reachability canary: one per return site (cover)
	if st.discover == nil && !st.dead {
		u.obls = append(u.obls, &Obligation{Name: u.name + "/cover-return", Kind: "cover", Func: u.name, Props: u.contract.Props,
			Pos: u.eng.posStr(pos), Goal: "return reachable", Query: st.pathText() + "(check-sat)\n", Cover: true, PathID: st.pathID})
	}
}

// ---------------------------------------------------------------------------
// contract application at a call site

type callCtx struct {
	fnName string
	env    *SpecEnv
	c      *FuncContract
}

func (u *Unit) callContract(st *State, fr *Frame, fn *ssa.Function, c *FuncContract, args []Val, bind []Val, resv ssa.Value, pos token.Pos) bool {
	c.Used = true
	if c.Trusted {
		u.trusted[c.Key()] = true
	}
	for i, p := range fn.Params {
		if i < len(args) {
			args[i].T = p.Type()
		}
	}
	old := st.clone()
	envPre := u.contractEnvFn(fn, args, bind, nil, old)
	name := relName(fn)
	if !u.applyPre(st, c, envPre, name, pos) {
		return false
	}
	// recursion variant (lexicographic)
	if c.Decreases != nil && u.contract.Decreases != nil {
		u.decreaseObligation(st, "dec@"+name, c.Decreases, envPre, st, pos)
	}
	u.applyFrame(st, c, envPre, args, fn.Signature, pos)
	// results
	var rs []Val
	sig := fn.Signature
	for i := 0; i < sig.Results().Len(); i++ {
		rs = append(rs, u.freshVal(st, "r_"+mangle(name), sig.Results().At(i).Type()))
	}
	envPost := u.contractEnvFn(fn, args, bind, rs, old)
	u.applyPost(st, c, envPost)
	u.setResult(st, fr, resv, packResults(sig, rs))
	return !st.dead
}

func (u *Unit) sameRecursionGroup(fn *ssa.Function) bool {
	return true
}

func (u *Unit) applyPre(st *State, c *FuncContract, env *SpecEnv, name string, pos token.Pos) bool {
	for i, r := range c.Requires {
		if strings.HasPrefix(r.Label, "creator") {
			continue
		}
		label := r.Label
		if label == "" {
			label = fmt.Sprintf("%d", i+1)
		}
		if err := u.obligeClause(st, env, r.Expr, "pre@"+name, label, pos, "requires "+r.Src, r.Props, r.Where); err != nil {
			u.fail(fmt.Sprintf("%s: requires %q at call: %v", r.Where, r.Src, err))
			continue
		}
	}
	return !st.dead
}

var unknownIdentRe = regexp.MustCompile(`(?:unknown identifier "|cannot resolve )([A-Za-z_][A-Za-z0-9_]*)`)

// calleeHasLocal: does the contract's function have a local variable of that name?
func (u *Unit) calleeHasLocal(c *FuncContract, name string) bool {
	fn := u.eng.fnByKey[c.Key()]
	if fn == nil {
		return false
	}
	for _, b := range fn.Blocks {
		for _, in := range b.Instrs {
			if a, ok := in.(*ssa.Alloc); ok && a.Comment == name {
				return true
			}
		}
	}
	return false
}

func (u *Unit) applyPost(st *State, c *FuncContract, env *SpecEnv) {
	for _, en := range c.Ensures {
		if err := u.assumeClause(st, env, en.Expr); err != nil {
			msg := err.Error()
			if m := unknownIdentRe.FindStringSubmatch(msg); m != nil && u.calleeHasLocal(c, m[1]) {
				// a postcondition about the callee's locals: meaningful only inside the callee
				continue
			}
			if strings.Contains(msg, "needs a local variable") {
				continue
			}
			u.fail(fmt.Sprintf("%s: ensures %q at call: %v", en.Where, en.Src, err))
			continue
		}
	}
}

// placeOf resolves a selector chain x.f.g (x a pointer, f a struct-valued field) to the
// interior place of the last field.
func (u *Unit) placeOf(st *State, env *SpecEnv, m *Spec) (*Ptr, types.Type, error) {
	if m.Kind != SSel {
		return nil, nil, fmt.Errorf("%s is not a field place", m)
	}
	var p *Ptr
	var t types.Type
	a, err := u.eval(st, env, m.A)
	if err != nil {
		return nil, nil, err
	}
	if dt := derefType(a.T); dt != nil {
		p, t = u.ptrOf(a), dt
	} else {
		p, t, err = u.placeOf(st, env, m.A)
		if err != nil {
			return nil, nil, err
		}
	}
	stt, ok := t.Underlying().(*types.Struct)
	if !ok || p == nil {
		return nil, nil, fmt.Errorf("%s: not a struct place", m)
	}
	for i := 0; i < stt.NumFields(); i++ {
		if stt.Field(i).Name() == m.Name {
			np := &Ptr{Kind: p.Kind, Ref: p.Ref, Idx: p.Idx, Root: p.Root, Path: append(append([]int(nil), p.Path...), i)}
			return np, stt.Field(i).Type(), nil
		}
	}
	return nil, nil, fmt.Errorf("%s: no such field", m)
}

// modLoc resolves a modifies entry to heap locations.
func (u *Unit) modLocs(st *State, env *SpecEnv, m *Spec) ([]loc, string, error) {
	switch m.Kind {
	case SIdent:
		if gs, ok := u.eng.ghostVars[m.Name]; ok {
			return nil, "G_" + m.Name + "|" + gs, nil
		}
	case SSel:
		a, err := u.eval(st, env, m.A)
		if err != nil {
			return nil, "", err
		}
		t := derefType(a.T)
		var p *Ptr
		if t == nil {
			// a field of a struct-valued field (p.inner.f): resolve the place of the inner struct
			if m.A.Kind == SSel {
				pp, pt, perr := u.placeOf(st, env, m.A)
				if perr != nil {
					return nil, "", perr
				}
				p, t = pp, pt
			} else {
				return nil, "", fmt.Errorf("modifies %s: not a pointer", m)
			}
		} else {
			p = u.ptrOf(a)
		}
		stt, ok := t.Underlying().(*types.Struct)
		if !ok {
			return nil, "", fmt.Errorf("modifies %s: not a struct", m)
		}
		if m.Name == "all" {
			locs, _ := u.locsOf(p)
			return locs, "", nil
		}
		for i := 0; i < stt.NumFields(); i++ {
			if stt.Field(i).Name() == m.Name {
				np := &Ptr{Kind: p.Kind, Ref: p.Ref, Idx: p.Idx, Root: p.Root, Path: append(append([]int(nil), p.Path...), i)}
				locs, _ := u.locsOf(np)
				return locs, "", nil
			}
		}
		return nil, "", fmt.Errorf("modifies %s: no such field", m)
	case SDeref:
		a, err := u.eval(st, env, m.A)
		if err != nil {
			return nil, "", err
		}
		locs, _ := u.locsOf(u.ptrOf(a))
		return locs, "", nil
	case SCall:
		switch m.Name {
		case "deref":
			a, err := u.eval(st, env, m.Args[0])
			if err != nil {
				return nil, "", err
			}
			pv, err := u.ifacePtr(a)
			if err != nil {
				return nil, "", err
			}
			locs, _ := u.locsOf(u.ptrOf(pv))
			return locs, "", nil
		case "pointees":
			// pointees(s): what the pointer-typed elements of the varargs slice s point to
			// (known when the slice was built from a varargs array on this path)
			a, err := u.eval(st, env, m.Args[0])
			if err != nil {
				return nil, "", err
			}
			var locs []loc
			for _, ev := range a.Elems {
				pv, err := u.ifacePtr(ev)
				if err != nil {
					continue
				}
				if _, isSig := derefType(pv.T).(*types.Signature); isSig {
					continue
				}
				pl, _ := u.locsOf(u.ptrOf(pv))
				locs = append(locs, pl...)
			}
			return locs, "", nil
		case "elems": // elems(s): all elements of slice s
			a, err := u.eval(st, env, m.Args[0])
			if err != nil {
				return nil, "", err
			}
			sl, ok := a.T.Underlying().(*types.Slice)
			if !ok {
				return nil, "", fmt.Errorf("elems of non-slice")
			}
			locs := u.elemLocs(sl.Elem(), a.Terms[0], "*")
			return locs, "", nil
		case "chanstate":
			a, err := u.eval(st, env, m.Args[0])
			if err != nil {
				return nil, "", err
			}
			var locs []loc
			for _, c := range []string{"C_sent", "C_recvd"} {
				locs = append(locs, loc{comp: c, arrSort: "(Array Int Int)", sort: "Int", kind: "F", ref: a.Terms[0]})
			}
			if et := chanElem(a.T); et != nil {
				for _, l := range u.eng.leavesOf(et) {
					locs = append(locs, loc{comp: "C_last_" + mangle(stripMod(typeKey(et))) + mangle(l.Suffix), arrSort: "(Array Int " + l.Sort + ")", sort: l.Sort, kind: "F", ref: a.Terms[0]})
				}
			}
			return locs, "", nil
		default:
			if gn, ok := u.eng.cs.GhostFields[m.Name]; ok && len(m.Args) == 1 {
				if m.Args[0].Kind == SIdent && m.Args[0].Name == "any" {
					// the ghost field of every object (whole component)
					gs, _, _ := u.specSort(env, gn)
					return nil, "GF_" + m.Name + "|(Array Int " + gs + ")", nil
				}
				a, err := u.eval(st, env, m.Args[0])
				if err != nil {
					return nil, "", err
				}
				gs, _, _ := u.specSort(env, gn)
				return []loc{{comp: "GF_" + m.Name, arrSort: "(Array Int " + gs + ")", sort: gs, kind: "F", ref: objRef(a)}}, "", nil
			}
		case "mapstate":
			a, err := u.eval(st, env, m.Args[0])
			if err != nil {
				return nil, "", err
			}
			return u.mapLocs(a), "", nil
		}
	}
	return nil, "", fmt.Errorf("unsupported modifies entry %s", m)
}

func (u *Unit) applyFrame(st *State, c *FuncContract, env *SpecEnv, args []Val, sig *types.Signature, pos token.Pos) {
	if c.Pure {
		u.bumpAlloc(st) // allocation is not an observable effect
		return
	}
	// monotone ghost variables: any call that is not pure may have advanced them
	for _, name := range sortedKeys(u.eng.cs.Monotone) {
		old := u.heapGet(st, "G_"+name, "Int")
		listed := false
		for _, m := range c.Modifies {
			if m.Kind == SIdent && m.Name == name {
				listed = true
			}
		}
		if !listed && c.HasMod && !c.ModAll {
			u.heapHavoc(st, "G_"+name, "Int")
			if st.discover != nil {
				st.discover.noteWhole("G_"+name, "Int")
			}
			st.assume(fmt.Sprintf("(>= %s %s)", u.heapGet(st, "G_"+name, "Int"), old))
		} else {
			defer func(name string, old Term) {
				st.assume(fmt.Sprintf("(>= %s %s)", u.heapGet(st, "G_"+name, "Int"), old))
			}(name, old)
		}
	}
	if !c.HasMod {
		u.havocReachableArgs(st, args, pos)
		u.havocGhostVars(st, pos)
		u.bumpAlloc(st)
		return
	}
	if c.ModAll {
		u.havocReachableArgs(st, args, pos)
		u.havocGhostVars(st, pos)
	}
	var hvs []hvItem
	for _, m := range c.Modifies {
		locs, ghost, err := u.modLocs(st, env, m)
		if err != nil {
			u.fail(fmt.Sprintf("%s: %v", c.Where, err))
			continue
		}
		if ghost != "" {
			parts := strings.SplitN(ghost, "|", 2)
			u.frameCheckGhost(st, parts[0], pos)
			u.heapHavoc(st, parts[0], parts[1])
			if st.discover != nil {
				st.discover.noteWhole(parts[0], parts[1])
			}
			continue
		}
		u.frameCheck(st, locs, pos)
		for _, l := range locs {
			if l.idx == "*" {
				// all elements of one backing store
				h := u.heapGet(st, l.comp, l.arrSort)
				u.freshN++
				fa := fmt.Sprintf("hv!%d", u.freshN)
				st.add(fmt.Sprintf("(declare-const %s (Array Int %s))", fa, l.sort))
				u.heapSet(st, l.comp, l.arrSort, fmt.Sprintf("(store %s %s %s)", h, l.ref, fa))
				if st.discover != nil {
					st.discover.noteHeap(l.comp, l.arrSort, l.ref)
				}
				continue
			}
			nv := u.fresh(st, "hv", l.sort)
			u.writeLoc(st, l, nv)
			hvs = append(hvs, hvItem{l, nv})
		}
	}
	u.bumpAlloc(st)
	// type invariants of the havocked leaves: references are allocated, sizes non-negative
	for _, h := range hvs {
		u.assumeLeafTyping(st, h.l.leaf, h.nv)
	}
}

type hvItem struct {
	l  loc
	nv Term
}

func (u *Unit) assumeLeafTyping(st *State, lf Leaf, t Term) {
	switch lf.Role {
	case "slice.b":
		st.assume(fmt.Sprintf("(and (<= 0 %s) (<= %s %s))", t, t, st.alloc))
	case "slice.o", "slice.l", "slice.c":
		st.assume(fmt.Sprintf("(and (<= 0 %s) (<= %s 1099511627776))", t, t))
	case "iface.t":
		st.assume(fmt.Sprintf("(<= 0 %s)", t))
	case "":
		if lf.T == nil {
			return
		}
		switch ut := lf.T.Underlying().(type) {
		case *types.Pointer, *types.Map, *types.Chan:
			st.assume(fmt.Sprintf("(and (<= 0 %s) (<= %s %s) (=> (not (= %s 0)) (= (reftype %s) %d)))", t, t, st.alloc, t, t, u.refTag(lf.T)))
		case *types.Signature:
			st.assume(fmt.Sprintf("(<= 0 %s)", t))
		case *types.Basic:
			if ut.Info()&types.IsInteger != 0 {
				if lo, hi, ok := intRange(ut); ok {
					st.assume(fmt.Sprintf("(and (<= %s %s) (<= %s %s))", lo, t, t, hi))
				}
			}
		}
	}
}

// frameCheck: a write to a pre-existing location must be licensed by the
// function's own modifies clause.
func (u *Unit) frameCheck(st *State, locs []loc, pos token.Pos) {
	c := u.contract
	if !c.HasMod || c.ModAll || c.NoFrame || st.discover != nil {
		return
	}
	entry := u.topEntry
	env := u.contractEnvFn(u.fn, u.topParams, st.frames[0].bind, nil, entry)
	for _, l := range locs {
		var alts []Term
		alts = append(alts, fmt.Sprintf("(> %s %s)", l.ref, u.A0))
		for _, m := range c.Modifies {
			mls, _, err := u.modLocs(entry, env, m)
			if err != nil {
				continue
			}
			for _, ml := range mls {
				if ml.comp == l.comp {
					if ml.idx == "*" || l.kind != "E" {
						alts = append(alts, sEq(ml.ref, l.ref))
					} else {
						alts = append(alts, sAnd(sEq(ml.ref, l.ref), sEq(ml.idx, l.idx)))
					}
				}
			}
		}
		u.oblige(st, "frame", "", sOr(alts...), pos, "write to "+l.comp+" is licensed by the modifies clause", nil, c.Where)
	}
}

func (u *Unit) frameCheckGhost(st *State, comp string, pos token.Pos) {
	c := u.contract
	if !c.HasMod || c.ModAll || c.NoFrame || st.discover != nil {
		return
	}
	if u.eng.cs.Monotone[strings.TrimPrefix(comp, "G_")] {
		return
	}
	for _, m := range c.Modifies {
		if m.Kind == SIdent && "G_"+m.Name == comp {
			return
		}
	}
	u.oblige(st, "frame", strings.TrimPrefix(comp, "G_"), "false", pos, "ghost state "+comp+" is not in the modifies clause", nil, c.Where)
}

// ---------------------------------------------------------------------------
// havoc for calls without contract

// havocGhostVars: a callee without a frame may change any ghost variable.
func (u *Unit) havocGhostVars(st *State, pos token.Pos) {
	for _, name := range sortedKeys(u.eng.ghostVars) {
		u.frameCheckGhost(st, "G_"+name, pos)
		u.heapHavoc(st, "G_"+name, u.eng.ghostVars[name])
		if st.discover != nil {
			st.discover.noteWhole("G_"+name, u.eng.ghostVars[name])
		}
	}
}

var dbCapable = []string{"gobuffalo/pop", "database/sql", "ory/x/popx", "ory/x/sqlcon", "jmoiron/sqlx"}

func (u *Unit) havocCall(st *State, fr *Frame, name string, sig *types.Signature, args []Val, resv ssa.Value, pos token.Pos) {
	u.abstraction("call havocked (no contract, not inlinable): " + stripMod(name))
	for _, p := range dbCapable {
		if strings.Contains(name, p) {
			// an uncontracted call into the database layer may change the stored state
			if _, ok := u.eng.ghostVars["db"]; ok {
				u.frameCheckGhost(st, "G_db", pos)
				u.heapHavoc(st, "G_db", u.eng.ghostVars["db"])
			}
		}
	}
	u.havocArgsExternal(st, args, pos)
	u.bumpAlloc(st)
	if resv != nil {
		fr.regs[resv] = u.freshVal(st, "hc", resv.Type())
	}
}

// havocArgsExternal: effect of a call into code outside the repository that has no contract.
// ASSUMPTION (listed in the evidence): such a callee writes only to the objects it is handed
// (one level: the pointee of pointer arguments, the elements of slice arguments, map
// arguments, and what closures passed to it captured), and every reference it stores there
// is nil or freshly allocated.
func (u *Unit) havocArgsExternal(st *State, args []Val, pos token.Pos) {
	oldAlloc := st.alloc
	seen := map[string]bool{}
	var one func(a Val, depth int)
	one = func(a Val, depth int) {
		if a.T == nil || depth > 2 {
			return
		}
		if _, isI := a.T.Underlying().(*types.Interface); isI {
			if a.Dyn != nil {
				if pv, err := u.ifacePtr(a); err == nil {
					one(pv, depth)
				}
			}
			return
		}
		if a.Fn != nil {
			// the callee may run the closure: apply the closure's own frame when it has one
			if cc := u.eng.contractFor(a.Fn.Fn); cc != nil && cc.HasMod && !cc.ModAll {
				env := u.contractEnvFn(a.Fn.Fn, nil, a.Fn.Bind, nil, st)
				for _, m := range cc.Modifies {
					locs, ghost, err := u.modLocs(st, env, m)
					if err != nil {
						u.fail(fmt.Sprintf("%s: %v", cc.Where, err))
						continue
					}
					if ghost != "" {
						parts := strings.SplitN(ghost, "|", 2)
						gname := strings.TrimPrefix(parts[0], "G_")
						// a ghost variable that the closure provably preserves (it has the
						// postcondition "<v> == old(<v>)", a reflexive and transitive relation) is
						// unchanged however often and in whatever order the callee runs the closure
						preserved := false
						for _, en := range cc.Ensures {
							if strings.Contains(strings.ReplaceAll(en.Src, " ", ""), gname+"==old("+gname+")") && en.Expr.Kind == SBinary && en.Expr.Op == "==" {
								preserved = true
							}
						}
						if preserved {
							continue
						}
						u.frameCheckGhost(st, parts[0], pos)
						u.heapHavoc(st, parts[0], parts[1])
						continue
					}
					u.frameCheck(st, locs, pos)
					for _, l := range locs {
						if l.idx == "*" {
							h := u.heapGet(st, l.comp, l.arrSort)
							u.freshN++
							fa := fmt.Sprintf("cl!%d", u.freshN)
							st.add(fmt.Sprintf("(declare-const %s (Array Int %s))", fa, l.sort))
							u.heapSetAt(st, l.comp, l.arrSort, fmt.Sprintf("(store %s %s %s)", h, l.ref, fa), l.ref)
							continue
						}
						u.writeLoc(st, l, u.fresh(st, "cl", l.sort))
					}
				}
				return
			}
			for _, b := range a.Fn.Bind {
				if b.T != nil {
					u.havocReachable(st, b.T, seen, 0, pos)
				}
			}
			return
		}
		switch t := a.T.Underlying().(type) {
		case *types.Pointer:
			p := u.ptrOf(a)
			if p == nil || p.Kind == PLocal || len(a.Terms) == 0 {
				return
			}
			if et := t.Elem(); !flattenableStruct(et) {
				if _, isStruct := et.Underlying().(*types.Struct); isStruct {
					return // opaque external object: no observable components
				}
			}
			locs, _ := u.locsOf(p)
			u.frameCheck(st, locs, pos)
			for _, l := range locs {
				nv := u.fresh(st, "xh", l.sort)
				u.writeLoc(st, l, nv)
				switch l.leaf.Role {
				case "slice.b":
					st.assume(fmt.Sprintf("(or (= %s 0) (> %s %s))", nv, nv, oldAlloc))
				case "":
					if l.leaf.T != nil && pointerLike(l.leaf.T) {
						if _, isSig := l.leaf.T.Underlying().(*types.Signature); !isSig {
							st.assume(fmt.Sprintf("(or (= %s 0) (> %s %s))", nv, nv, oldAlloc))
						}
					}
				}
			}
			_ = t
		case *types.Slice:
			for _, l := range u.elemLocs(t.Elem(), a.Terms[0], "*") {
				u.frameCheck(st, []loc{l}, pos)
				h := u.heapGet(st, l.comp, l.arrSort)
				u.freshN++
				fa := fmt.Sprintf("xa!%d", u.freshN)
				st.add(fmt.Sprintf("(declare-const %s (Array Int %s))", fa, l.sort))
				u.heapSetAt(st, l.comp, l.arrSort, fmt.Sprintf("(store %s %s %s)", h, l.ref, fa), l.ref)
			}
		case *types.Map:
			for _, l := range u.mapLocs(a) {
				u.frameCheck(st, []loc{l}, pos)
				nv := u.fresh(st, "xm", l.sort)
				u.writeLoc(st, l, nv)
			}
		}
	}
	for _, a := range args {
		one(a, 0)
	}
	// typing of the fresh leaves refers to the allocation counter after the call
}

func (u *Unit) havocReachableArgs(st *State, args []Val, pos token.Pos) {
	seen := map[string]bool{}
	for _, a := range args {
		t := a.T
		if a.Dyn != nil {
			t = a.Dyn
		}
		if t != nil {
			u.havocReachable(st, t, seen, 0, pos)
		}
		// a closure handed to an unknown callee may run: everything it captured may change
		if a.Fn != nil {
			for _, b := range a.Fn.Bind {
				if b.T != nil {
					u.havocReachable(st, b.T, seen, 0, pos)
				}
			}
		}
	}
}

func (u *Unit) havocReachable(st *State, t types.Type, seen map[string]bool, depth int, pos token.Pos) {
	k := typeKey(t)
	if seen[k] || depth > 6 {
		return
	}
	seen[k] = true
	switch x := t.Underlying().(type) {
	case *types.Pointer:
		et := x.Elem()
		kind := "F"
		if _, ok := et.Underlying().(*types.Struct); !ok || !flattenableStruct(et) {
			kind = "P"
		}
		for _, l := range u.eng.leavesOf(et) {
			comp := u.compName(kind, et, l.Suffix)
			as := u.compSort(kind, l.Sort)
			u.wholeHavoc(st, comp, as, pos)
		}
		u.havocReachable(st, et, seen, depth+1, pos)
	case *types.Slice:
		for _, l := range u.eng.leavesOf(x.Elem()) {
			comp := u.compName("E", x.Elem(), l.Suffix)
			u.wholeHavoc(st, comp, u.compSort("E", l.Sort), pos)
		}
		u.havocReachable(st, x.Elem(), seen, depth+1, pos)
	case *types.Struct:
		if flattenableStruct(t) {
			for i := 0; i < x.NumFields(); i++ {
				u.havocReachable(st, x.Field(i).Type(), seen, depth+1, pos)
			}
		}
	case *types.Map:
		for _, l := range u.mapLocs(Val{T: t, Terms: []Term{"0"}}) {
			u.wholeHavoc(st, l.comp, l.arrSort, pos)
		}
		u.havocReachable(st, x.Elem(), seen, depth+1, pos)
	}
}

func (u *Unit) wholeHavoc(st *State, comp, arrSort string, pos token.Pos) {
	if _, touched := st.heap[comp]; !touched {
		if !u.eng.gdeclSet["H0_"+comp] {
			// component never used by this unit: nothing observable to forget
			return
		}
	}
	c := u.contract
	if c.HasMod && !c.ModAll && !c.NoFrame && st.discover == nil {
		u.oblige(st, "frame", "havoc", "false", pos, "call without a modifies clause may write "+comp, nil, c.Where)
	}
	u.heapHavoc(st, comp, arrSort)
	if st.discover != nil {
		st.discover.noteWhole(comp, arrSort)
	}
}

func (c *FuncContract) abandonProps() []string {
	if p := c.Opts["abandon-props"]; p != "" {
		return strings.Fields(p)
	}
	return nil
}

// callSiteClauses: caller-side obligations attached to calls of a given callee.
func (u *Unit) callSiteClauses(st *State, fr *Frame, calleeName string, args []Val, pos token.Pos) {
	if fr.contract == nil || len(st.frames) != 1 {
		return
	}
	for _, cs := range fr.contract.CallSites {
		if cs.Callee != calleeName {
			continue
		}
		cs.Matched = true
		env := u.loopEnv(st, fr, fr.block)
		for i, a := range args {
			env.vars[fmt.Sprintf("$arg%d", i)] = a
		}
		if fr.curLoop != nil {
			env.atHead = fr.curLoop.atHead // athead(e): e when the current iteration of the enclosing loop started
		}
		u.goalEval = true
		t, err := u.evalBool(st, env, cs.Clause.Expr)
		u.goalEval = false
		if err != nil {
			u.fail(fmt.Sprintf("%s: callsite clause %q: %v", cs.Clause.Where, cs.Clause.Src, err))
			continue
		}
		u.oblige(st, "callsite@"+calleeName, cs.Clause.Label, t, pos, "at the call of "+calleeName+": "+cs.Clause.Src, cs.Clause.Props, cs.Clause.Where)
	}
}

// closureCreated: a closure that will run later with its own termination measure must be
// created below the measure of the creating activation.
func (u *Unit) closureCreated(st *State, fr *Frame, cv Val, pos token.Pos) {
	if len(st.frames) != 1 || cv.Fn == nil {
		return
	}
	c := u.eng.contractFor(cv.Fn.Fn)
	if c == nil {
		return
	}
	env := u.contractEnvFn(cv.Fn.Fn, nil, cv.Fn.Bind, nil, st)
	delete(env.vars, "self")
	// preconditions that speak only about captured variables must hold when the closure is created
	for i, r := range c.Requires {
		if !strings.HasPrefix(r.Label, "captured") && !strings.HasPrefix(r.Label, "creator") {
			continue
		}
		if strings.HasPrefix(r.Label, "creator") {
			// may also speak about the creating function's locals (alignment of what is captured)
			env.fr = fr
			env.useLocals = true
		} else {
			env.fr = nil
			env.useLocals = false
		}
		t, err := u.evalBool(st, env, r.Expr)
		if err != nil {
			u.fail(fmt.Sprintf("%s: captured-variable precondition %q: %v", r.Where, r.Src, err))
			continue
		}
		u.oblige(st, "pre@create:"+relName(cv.Fn.Fn), fmt.Sprintf("%d", i+1), t, pos, "closure precondition on captured variables: "+r.Src, r.Props, r.Where)
	}
	if c.Decreases == nil || u.contract.Decreases == nil {
		return
	}
	u.decreaseObligation(st, "dec@create:"+relName(cv.Fn.Fn), c.Decreases, env, st, pos)
}

// closureCandidates lists the anonymous functions of the function under contract (and of
// the functions inlined on this path) whose signature is sig: the closures a function value
// of that type can be on this path, provided the "closure-target" obligation holds.
func (u *Unit) closureCandidates(st *State, sig *types.Signature) []*ssa.Function {
	var out []*ssa.Function
	seen := map[*ssa.Function]bool{}
	var walk func(f *ssa.Function)
	walk = func(f *ssa.Function) {
		for _, a := range f.AnonFuncs {
			if seen[a] {
				continue
			}
			seen[a] = true
			if types.Identical(a.Signature, sig) && a.Blocks != nil {
				ok := true
				for _, fv := range a.FreeVars {
					if ls := u.eng.leavesOf(fv.Type()); len(ls) != 1 || ls[0].Sort != "Int" {
						ok = false
					}
				}
				if ok {
					out = append(out, a)
				}
			}
			walk(a)
		}
	}
	root := u.fn
	for root.Parent() != nil {
		root = root.Parent()
	}
	walk(root)
	return out
}

// dispatchClosure resolves a call through a function value whose identity is not known on
// the Go side. The value is one of the closures created in the function under contract
// (obligation "closure-target": fnid(f) is one of them); the path is split per candidate,
// each successor re-executes the call with the candidate's code and the captured cells
// capv(f, j). Only plain calls are dispatched (not defer/go).
func (u *Unit) dispatchClosure(st *State, fr *Frame, instr ssa.Instruction, fv Val, sig *types.Signature, pos token.Pos) (*FnVal, bool, bool) {
	if _, isCall := instr.(*ssa.Call); !isCall || len(fv.Terms) != 1 {
		return nil, false, false
	}
	key := "clochoice:" + fv.Terms[0]
	if ch, ok := st.info[key]; ok && ch.Fn != nil {
		return ch.Fn, true, true
	}
	cands := u.closureCandidates(st, sig)
	if len(cands) == 0 {
		return nil, false, false
	}
	var alts []Term
	for _, c := range cands {
		alts = append(alts, fmt.Sprintf("(= (fnid %s) %d)", fv.Terms[0], u.fnID(c)))
	}
	u.oblige(st, "closure-target", "", sOr(alts...), pos, "the function value called here is one of the closures created in this function", nil, "")
	for i, c := range cands {
		o := u.fork(st)
		o.assume(alts[i])
		var bind []Val
		for j, fvar := range c.FreeVars {
			b := Val{T: fvar.Type(), Terms: []Term{fmt.Sprintf("(capv %s %d)", fv.Terms[0], j)}}
			if _, isPtr := fvar.Type().Underlying().(*types.Pointer); isPtr {
				o.assume(fmt.Sprintf("(not (= %s 0))", b.Terms[0]))
			}
			u.assumeTyping(o, b)
			bind = append(bind, b)
		}
		if o.info == nil {
			o.info = map[string]Val{}
		}
		o.info[key] = Val{Fn: &FnVal{Fn: c, Bind: bind}}
		o.top().idx--
		if u.feasible(o) {
			u.work = append(u.work, o)
		}
	}
	return nil, true, false
}

// callFuncValue: call through a function value of unknown identity.
func (u *Unit) callFuncValue(st *State, fr *Frame, instr ssa.Instruction, fv Val, args []Val, sig *types.Signature, resv ssa.Value, pos token.Pos) bool {
	// type-level contract keyed by signature
	key := sigKey(sig)
	u.callSiteClauses(st, fr, key, append([]Val{fv}, args...), pos)
	if c, ok := u.eng.cs.Funcs[key]; ok {
		c.Used = true
		if c.Trusted {
			u.trusted[c.Key()] = true
		}
		old := st.clone()
		self := fv
		env := u.sigEnv(sig, &self, args, nil, old, u.pkgOf(u.fn))
		if !u.applyPre(st, c, env, "func-value", pos) {
			return false
		}
		u.applyFrame(st, c, env, args, sig, pos)
		var rs []Val
		for i := 0; i < sig.Results().Len(); i++ {
			rs = append(rs, u.freshVal(st, "r_fv", sig.Results().At(i).Type()))
		}
		envPost := u.sigEnv(sig, &self, args, rs, old, u.pkgOf(u.fn))
		u.applyPost(st, c, envPost)
		u.setResult(st, fr, resv, packResults(sig, rs))
		return !st.dead
	}
	u.havocCall(st, fr, "dynamic call of "+types.TypeString(sig, nil), sig, args, resv, pos)
	return true
}

func (u *Unit) callInvoke(st *State, fr *Frame, instr ssa.Instruction, cc *ssa.CallCommon, recv Val, args []Val, resv ssa.Value) bool {
	pos := cc.Pos()
	u.oblige(st, "nil", "iface", sNot(sEq(recv.Terms[0], "0")), pos, "method call on nil interface", nil, "")
	// devirtualise when the dynamic type is known on this path
	if recv.Dyn != nil {
		if fn := u.eng.prog.LookupMethod(recv.Dyn, cc.Method.Pkg(), cc.Method.Name()); fn != nil {
			inner := u.unboxAs(st, recv, recv.Dyn)
			fv := Val{T: fn.Type(), Fn: &FnVal{Fn: fn}}
			return u.callValue(st, fr, instr, fv, append([]Val{inner}, args...), cc.Signature(), resv, pos)
		}
	}
	pkg, name := ifaceMethodKey(cc.Value.Type(), cc.Method)
	sig := cc.Method.Type().(*types.Signature)
	u.callSiteClauses(st, fr, name, append([]Val{recv}, args...), pos)
	if c, ok := u.eng.cs.Funcs[pkg+"::"+name]; ok {
		c.Used = true
		if c.Trusted {
			u.trusted[c.Key()] = true
		}
		old := st.clone()
		env := u.sigEnv(sig, &recv, args, nil, old, cc.Method.Pkg())
		if !u.applyPre(st, c, env, name, pos) {
			return false
		}
		u.applyFrame(st, c, env, append([]Val{recv}, args...), sig, pos)
		var rs []Val
		for i := 0; i < sig.Results().Len(); i++ {
			rs = append(rs, u.freshVal(st, "r_"+mangle(name), sig.Results().At(i).Type()))
		}
		envPost := u.sigEnv(sig, &recv, args, rs, old, cc.Method.Pkg())
		u.applyPost(st, c, envPost)
		u.setResult(st, fr, resv, packResults(sig, rs))
		return !st.dead
	}
	u.havocCall(st, fr, "interface method "+pkg+"."+name, sig, args, resv, pos)
	return true
}

// ---------------------------------------------------------------------------
// builtins

func (u *Unit) callBuiltin(st *State, fr *Frame, instr ssa.Instruction, b *ssa.Builtin, cc *ssa.CallCommon, args []Val, resv ssa.Value) bool {
	pos := cc.Pos()
	set := func(v Val) {
		if resv != nil {
			fr.regs[resv] = v
		}
	}
	switch b.Name() {
	case "len", "cap":
		a := args[0]
		switch a.T.Underlying().(type) {
		case *types.Basic:
			set(intVal(fmt.Sprintf("(slen %s)", a.Terms[0])))
		case *types.Slice:
			if b.Name() == "len" {
				set(intVal(a.Terms[2]))
			} else {
				set(intVal(a.Terms[3]))
			}
		case *types.Map:
			set(intVal(u.define(st, "mlen", "Int", fmt.Sprintf("(select %s %s)", u.heapGet(st, "M_len", "(Array Int Int)"), a.Terms[0]))))
		case *types.Chan:
			r := u.freshVal(st, "chlen", tInt)
			st.assume(fmt.Sprintf("(<= 0 %s)", r.Terms[0]))
			set(r)
		case *types.Pointer:
			if at, ok := derefType(a.T).Underlying().(*types.Array); ok {
				set(intVal(fmt.Sprintf("%d", at.Len())))
			}
		case *types.Array:
			set(intVal(fmt.Sprintf("%d", a.T.Underlying().(*types.Array).Len())))
		default:
			set(u.freshVal(st, "len", tInt))
		}
	case "append":
		u.builtinAppend(st, fr, args, resv, pos)
	case "copy":
		// copy(dst, src): havoc dst elements
		d := args[0]
		if sl, ok := d.T.Underlying().(*types.Slice); ok {
			for _, l := range u.elemLocs(sl.Elem(), d.Terms[0], "*") {
				h := u.heapGet(st, l.comp, l.arrSort)
				u.freshN++
				fa := fmt.Sprintf("cp!%d", u.freshN)
				st.add(fmt.Sprintf("(declare-const %s (Array Int %s))", fa, l.sort))
				u.frameCheck(st, []loc{l}, pos)
				u.heapSet(st, l.comp, l.arrSort, fmt.Sprintf("(store %s %s %s)", h, l.ref, fa))
				if st.discover != nil {
					st.discover.noteHeap(l.comp, l.arrSort, l.ref)
				}
			}
		}
		r := u.freshVal(st, "copied", tInt)
		st.assume(fmt.Sprintf("(<= 0 %s)", r.Terms[0]))
		set(r)
	case "delete":
		u.mapDelete(st, args[0], args[1], pos)
	case "panic":
		if !u.contract.MayPanic {
			u.oblige(st, "panic-unreachable", "", "false", pos, "explicit panic is unreachable", nil, "")
		}
		return false
	case "print", "println":
	case "close":
		// closing: ghost closed flag
		u.heapSet(st, "C_closed", "(Array Int Bool)", fmt.Sprintf("(store %s %s true)", u.heapGet(st, "C_closed", "(Array Int Bool)"), args[0].Terms[0]))
	case "min", "max":
		op := "<="
		if b.Name() == "max" {
			op = ">="
		}
		cur := args[0].Terms[0]
		for _, a := range args[1:] {
			cur = fmt.Sprintf("(ite (%s %s %s) %s %s)", op, cur, a.Terms[0], cur, a.Terms[0])
		}
		set(Val{T: args[0].T, Terms: []Term{cur}})
	case "ssa:deferstack":
		if resv != nil {
			set(Val{T: resv.Type(), Terms: []Term{"0"}})
		}
	case "recover":
		set(u.zeroVal(resv.Type()))
	case "ssa:wrapnilchk":
		u.oblige(st, "nil", "", sNot(sEq(args[0].Terms[0], "0")), pos, "nil receiver", nil, "")
		set(args[0])
	default:
		if resv != nil {
			set(u.freshVal(st, "builtin_"+b.Name(), resv.Type()))
		}
		u.abstraction(u.name + ": builtin " + b.Name() + " havocked")
	}
	return !st.dead
}

func (u *Unit) builtinAppend(st *State, fr *Frame, args []Val, resv ssa.Value, pos token.Pos) {
	s := args[0]
	sl := s.T.Underlying().(*types.Slice)
	et := sl.Elem()
	add := args[1]
	b, o, l, c := sliceParts(s)
	var n Term
	isStr := false
	if add.T != nil && isString(add.T) {
		n = fmt.Sprintf("(slen %s)", add.Terms[0])
		isStr = true
	} else {
		n = add.Terms[2]
	}
	// Result: a fresh backing store that agrees with the old contents on [0,l) and with
	// the appended elements on [l, l+n). Modelling append as always reallocating is sound
	// for functional postconditions only when no alias of the old backing store is read
	// afterwards; to stay sound we ALSO write the appended elements into the old store when
	// capacity suffices (both effects are applied to a nondeterministically chosen store).
	nb := u.fresh(st, "ab", "Int")
	inplace := fmt.Sprintf("(<= (+ %s %s) %s)", l, n, c)
	st.assume(fmt.Sprintf("(ite (and %s (not (= %s 0))) (= %s %s) (= %s (+ %s 1)))", inplace, b, nb, b, nb, st.alloc))
	na := u.fresh(st, "A", "Int")
	st.assume(fmt.Sprintf("(and (<= %s %s) (<= %s %s))", st.alloc, na, nb, na))
	st.alloc = na
	no := u.fresh(st, "ao", "Int")
	st.assume(fmt.Sprintf("(= %s (ite (= %s %s) %s 0))", no, nb, b, o))
	nl := u.define(st, "al", "Int", fmt.Sprintf("(+ %s %s)", l, n))
	nc := u.fresh(st, "ac", "Int")
	st.assume(fmt.Sprintf("(and (<= %s %s) (=> (= %s %s) (= %s %s)))", nl, nc, nb, b, nc, c))
	for li, lf := range u.eng.leavesOf(et) {
		comp := u.compName("E", et, lf.Suffix)
		as := u.compSort("E", lf.Sort)
		h := u.heapGet(st, comp, as)
		u.freshN++
		na := fmt.Sprintf("app!%d", u.freshN)
		st.add(fmt.Sprintf("(declare-const %s (Array Int %s))", na, lf.Sort))
		// old prefix preserved
		u.freshN++
		qi := fmt.Sprintf("k!%d", u.freshN)
		st.assume(fmt.Sprintf("(forall ((%s Int)) (! (=> (and (<= 0 %s) (< %s %s)) (= (select %s (+ %s %s)) (select (select %s %s) (+ %s %s)))) :pattern ((select %s (+ %s %s)))))",
			qi, qi, qi, l, na, no, qi, h, b, o, qi, na, no, qi))
		// the same facts as explicit templates (instantiated at index operations and at skolem
		// indices of quantified goals; solver triggers with arithmetic are unreliable)
		u.freshN++
		tj := fmt.Sprintf("qa_j!%d$", u.freshN)
		st.qfacts = append(append([]qfact(nil), st.qfacts...),
			qfact{ante: "true", bv: tj, impl: fmt.Sprintf("(=> (and (<= 0 %s) (< %s %s)) (= (select %s (+ %s %s)) (select (select %s %s) (+ %s %s))))", tj, tj, l, na, no, tj, h, b, o, tj)})
		if !isStr {
			st.qfacts = append(st.qfacts, qfact{ante: "true", bv: tj, impl: fmt.Sprintf("(=> (and (<= %s %s) (< %s (+ %s %s))) (= (select %s (+ %s %s)) (select (select %s %s) (+ %s (- %s %s)))))", l, tj, tj, l, n, na, no, tj, h, add.Terms[0], add.Terms[1], tj, l)})
		}
		// in-place: everything outside [o+l, o+l+n) unchanged
		st.assume(fmt.Sprintf("(=> (= %s %s) (forall ((%s Int)) (! (=> (or (< %s (+ %s %s)) (>= %s (+ %s %s))) (= (select %s %s) (select (select %s %s) %s))) :pattern ((select %s %s)))))",
			nb, b, qi, qi, o, l, qi, o, nl, na, qi, h, b, qi, na, qi))
		// appended elements
		if !isStr {
			ab, ao := add.Terms[0], add.Terms[1]
			st.assume(fmt.Sprintf("(forall ((%s Int)) (! (=> (and (<= 0 %s) (< %s %s)) (= (select %s (+ %s %s %s)) (select (select %s %s) (+ %s %s)))) :pattern ((select %s (+ %s %s %s)))))",
				qi, qi, qi, n, na, no, l, qi, h, ab, ao, qi, na, no, l, qi))
			st.assume(fmt.Sprintf("(=> (< 0 %s) (= (select %s (+ %s %s)) (select (select %s %s) %s)))", n, na, no, l, h, ab, ao))
		} else if li == 0 {
			st.assume(fmt.Sprintf("(forall ((%s Int)) (! (=> (and (<= 0 %s) (< %s %s)) (= (select %s (+ %s %s %s)) (sat %s %s))) :pattern ((select %s (+ %s %s %s)))))",
				qi, qi, qi, n, na, no, l, qi, add.Terms[0], qi, na, no, l, qi))
		}
		l0 := loc{comp: comp, arrSort: as, sort: lf.Sort, kind: "E", ref: nb, idx: "*", leaf: lf}
		u.frameCheck(st, []loc{l0}, pos)
		u.heapSet(st, comp, as, fmt.Sprintf("(store %s %s %s)", h, nb, na))
		if st.discover != nil {
			st.discover.noteWhole(comp, as)
		}
	}
	if resv != nil {
		fr.regs[resv] = Val{T: resv.Type(), Terms: []Term{nb, no, nl, nc}}
	}
}

// objRef: the object identity of a pointer or interface value.
func objRef(v Val) Term {
	if v.T != nil {
		if _, ok := v.T.Underlying().(*types.Interface); ok && len(v.Terms) == 2 {
			return v.Terms[1]
		}
	}
	return v.Terms[0]
}

// ifacePtr: the pointer wrapped in an interface value whose dynamic type is known on this path.
func (u *Unit) ifacePtr(x Val) (Val, error) {
	if x.Inner != nil && x.Dyn != nil {
		if _, ok := x.Dyn.Underlying().(*types.Pointer); ok {
			v := *x.Inner
			v.T = x.Dyn
			return v, nil
		}
	}
	if x.Dyn != nil {
		if _, ok := x.Dyn.Underlying().(*types.Pointer); ok {
			return Val{T: x.Dyn, Terms: []Term{x.Terms[1]}}, nil
		}
	}
	if x.T != nil {
		if _, ok := x.T.Underlying().(*types.Pointer); ok {
			return x, nil
		}
	}
	return Val{}, fmt.Errorf("deref(): dynamic type of the interface value is not known on this path")
}

func (u *Unit) measure(st *State, env *SpecEnv, c *Clause) ([]Term, error) {
	var out []Term
	for _, e := range append([]*Spec{c.Expr}, c.More...) {
		t, err := u.evalInt(st, env, e)
		if err != nil {
			return nil, err
		}
		out = append(out, t)
	}
	return out, nil
}

// decreaseObligation: the measure of the callee activation (or created closure) is
// lexicographically below the measure of the current activation, whose components are >= 0.
func (u *Unit) decreaseObligation(st *State, name string, calleeDec *Clause, calleeEnv *SpecEnv, calleeState *State, pos token.Pos) {
	cur, err1 := u.measure(u.topEntry, u.contractEnvFn(u.fn, u.topParams, st.frames[0].bind, nil, u.topEntry), u.contract.Decreases)
	nxt, err2 := u.measure(calleeState, calleeEnv, calleeDec)
	if err1 != nil || err2 != nil {
		u.fail(fmt.Sprintf("%s: decreases: %v %v", calleeDec.Where, err1, err2))
		return
	}
	for len(nxt) < len(cur) {
		nxt = append(nxt, "0")
	}
	for len(cur) < len(nxt) {
		cur = append(cur, "0")
	}
	less := "false"
	for i := len(cur) - 1; i >= 0; i-- {
		less = sOr(fmt.Sprintf("(< %s %s)", nxt[i], cur[i]), sAnd(sEq(nxt[i], cur[i]), less))
	}
	var nonneg []Term
	for _, t := range cur {
		nonneg = append(nonneg, fmt.Sprintf("(<= 0 %s)", t))
	}
	u.oblige(st, name, "", sAnd(append(nonneg, less)...), pos, "termination measure decreases (lexicographic): "+calleeDec.Src, calleeDec.Props, calleeDec.Where)
}

// small, loop-free standard-library methods that are executed symbolically instead of being
// given an assumed contract
var inlineExternal = map[string]bool{
	"net/url::(Values).Get": true,
	"net/url::(Values).Has": true,
	"net/url::(Values).Add": true,
	"net/url::(Values).Set": true,
}

// modelSprintf: fmt.Sprintf with a literal format made of text and %s verbs whose arguments
// are strings is the concatenation of the pieces (assumed semantics of fmt for %s on strings).
func (u *Unit) modelSprintf(st *State, fr *Frame, args []Val, resv ssa.Value) bool {
	if len(args) != 2 || resv == nil || len(args[0].Terms) != 1 || len(args[1].Terms) != 4 {
		return false
	}
	var format string
	found := false
	if args[0].Terms[0] == "str_empty" {
		found = true
	}
	for k, n := range u.eng.strLits {
		if n == args[0].Terms[0] {
			format, found = k, true
		}
	}
	if !found {
		return false
	}
	parts := strings.Split(format, "%s")
	for _, p := range parts {
		if strings.Contains(p, "%") {
			return false
		}
	}
	nverbs := len(parts) - 1
	sl, ok := args[1].T.Underlying().(*types.Slice)
	if !ok {
		return false
	}
	b, o, ln, _ := sliceParts(args[1])
	locs := u.elemLocs(sl.Elem(), b, "") // tag, val
	if len(locs) != 2 {
		return false
	}
	strTag := sInt(int64(u.eng.typeTag(types.Typ[types.String])))
	var conds []Term
	conds = append(conds, sEq(ln, sInt(int64(nverbs))))
	res := u.eng.strLit(parts[len(parts)-1])
	for k := nverbs - 1; k >= 0; k-- {
		idx := fmt.Sprintf("(+ %s %d)", o, k)
		lt, lv := locs[0], locs[1]
		lt.idx, lv.idx = idx, idx
		conds = append(conds, sEq(u.readLoc(st, lt), strTag))
		piece := fmt.Sprintf("(unbox_Str %s)", u.readLoc(st, lv))
		res = fmt.Sprintf("(scat %s %s)", piece, res)
		if parts[k] != "" {
			res = fmt.Sprintf("(scat %s %s)", u.eng.strLit(parts[k]), res)
		}
	}
	r := u.freshVal(st, "sprintf", types.Typ[types.String])
	st.assume(sImp(sAnd(conds...), sEq(r.Terms[0], res)))
	fr.regs[resv] = r
	u.trusted["model: fmt.Sprintf with %s verbs is concatenation"] = true
	return true
}
