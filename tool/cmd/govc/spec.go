package main

// Spec expression language: a small expression grammar, close to Go, used in
// //@ contract lines.
//
//   e ::= e ==> e | e <==> e | e || e | e && e | !e | e cmp e | e + e | ...
//       | forall x in lo..hi :: e | exists x in lo..hi :: e | forall x T :: e
//       | c ? a : b
//       | old(e) | len(e) | cap(e) | f(e, ...) | e.f | e[i] | e[lo:hi] | *e
//       | ident | pkg.Ident | int | "string" | 'c' | nil | true | false | result

import (
	"fmt"
	"strconv"
	"strings"
	"unicode"
)

type SpecKind int

const (
	SIdent SpecKind = iota
	SInt
	SStr
	SBool
	SNil
	SUnary  // Op, A
	SBinary // Op, A, B
	SCall   // Name or A (callee expr), Args
	SSel    // A . Name
	SIndex  // A [ B ]
	SSlice  // A [ B : C ]  (B, C may be nil)
	SQuant  // Op forall/exists, Name var, B lo, C hi (may be nil => typed), TypeName, A body
	SCond   // A ? B : C
	SOld    // old(A)
	SDeref  // *A
)

type Spec struct {
	Kind     SpecKind
	Op       string
	Name     string
	Int      int64
	Str      string
	Bool     bool
	A, B, C  *Spec
	Args     []*Spec
	TypeName string
	Src      string
}

func (s *Spec) String() string {
	if s == nil {
		return "<nil>"
	}
	switch s.Kind {
	case SIdent:
		return s.Name
	case SInt:
		return strconv.FormatInt(s.Int, 10)
	case SStr:
		return strconv.Quote(s.Str)
	case SBool:
		return strconv.FormatBool(s.Bool)
	case SNil:
		return "nil"
	case SUnary:
		return s.Op + s.A.String()
	case SBinary:
		return "(" + s.A.String() + " " + s.Op + " " + s.B.String() + ")"
	case SCall:
		var as []string
		for _, a := range s.Args {
			as = append(as, a.String())
		}
		if s.A != nil {
			return s.A.String() + "(" + strings.Join(as, ", ") + ")"
		}
		return s.Name + "(" + strings.Join(as, ", ") + ")"
	case SSel:
		return s.A.String() + "." + s.Name
	case SIndex:
		return s.A.String() + "[" + s.B.String() + "]"
	case SSlice:
		return s.A.String() + "[" + s.B.String() + ":" + s.C.String() + "]"
	case SQuant:
		if s.B != nil {
			return fmt.Sprintf("(%s %s in %s..%s :: %s)", s.Op, s.Name, s.B, s.C, s.A)
		}
		return fmt.Sprintf("(%s %s %s :: %s)", s.Op, s.Name, s.TypeName, s.A)
	case SCond:
		return "(" + s.A.String() + " ? " + s.B.String() + " : " + s.C.String() + ")"
	case SOld:
		return "old(" + s.A.String() + ")"
	case SDeref:
		return "*" + s.A.String()
	}
	return "?"
}

type tok struct {
	k string // "id","int","str","chr","op","eof"
	s string
}

type specLexer struct {
	toks []tok
	p    int
}

func lexSpec(src string) ([]tok, error) {
	var toks []tok
	i := 0
	rs := []rune(src)
	for i < len(rs) {
		c := rs[i]
		switch {
		case unicode.IsSpace(c):
			i++
		case unicode.IsLetter(c) || c == '_' || c == '$':
			j := i
			for j < len(rs) && (unicode.IsLetter(rs[j]) || unicode.IsDigit(rs[j]) || rs[j] == '_' || rs[j] == '$') {
				j++
			}
			toks = append(toks, tok{"id", string(rs[i:j])})
			i = j
		case unicode.IsDigit(c):
			j := i
			for j < len(rs) && (unicode.IsDigit(rs[j]) || rs[j] == 'x' || (rs[j] >= 'a' && rs[j] <= 'f') || (rs[j] >= 'A' && rs[j] <= 'F')) {
				j++
			}
			toks = append(toks, tok{"int", string(rs[i:j])})
			i = j
		case c == '"':
			j := i + 1
			for j < len(rs) && rs[j] != '"' {
				if rs[j] == '\\' {
					j++
				}
				j++
			}
			if j >= len(rs) {
				return nil, fmt.Errorf("unterminated string in %q", src)
			}
			s, err := strconv.Unquote(string(rs[i : j+1]))
			if err != nil {
				return nil, fmt.Errorf("bad string literal in %q: %v", src, err)
			}
			toks = append(toks, tok{"str", s})
			i = j + 1
		case c == '\'':
			j := i + 1
			for j < len(rs) && rs[j] != '\'' {
				if rs[j] == '\\' {
					j++
				}
				j++
			}
			if j >= len(rs) {
				return nil, fmt.Errorf("unterminated char in %q", src)
			}
			s, err := strconv.Unquote(string(rs[i : j+1]))
			if err != nil {
				return nil, fmt.Errorf("bad char literal in %q: %v", src, err)
			}
			toks = append(toks, tok{"int", strconv.Itoa(int([]rune(s)[0]))})
			i = j + 1
		default:
			ops := []string{"<==>", "==>", "::", "..", "==", "!=", "<=", ">=", "&&", "||", "+", "-", "*", "/", "%", "<", ">", "!", "(", ")", "[", "]", ".", ",", "?", ":"}
			matched := false
			for _, op := range ops {
				if strings.HasPrefix(string(rs[i:]), op) {
					toks = append(toks, tok{"op", op})
					i += len([]rune(op))
					matched = true
					break
				}
			}
			if !matched {
				return nil, fmt.Errorf("unexpected character %q in spec %q", c, src)
			}
		}
	}
	toks = append(toks, tok{"eof", ""})
	return toks, nil
}

func ParseSpec(src string) (*Spec, error) {
	toks, err := lexSpec(src)
	if err != nil {
		return nil, err
	}
	l := &specLexer{toks: toks}
	e, err := l.parseExpr(0)
	if err != nil {
		return nil, fmt.Errorf("%v in spec %q", err, src)
	}
	if l.peek().k != "eof" {
		return nil, fmt.Errorf("trailing tokens at %q in spec %q", l.peek().s, src)
	}
	e.Src = src
	return e, nil
}

func (l *specLexer) peek() tok { return l.toks[l.p] }
func (l *specLexer) next() tok { t := l.toks[l.p]; l.p++; return t }
func (l *specLexer) isOp(s string) bool {
	t := l.peek()
	return t.k == "op" && t.s == s
}
func (l *specLexer) expectOp(s string) error {
	if !l.isOp(s) {
		return fmt.Errorf("expected %q, got %q", s, l.peek().s)
	}
	l.p++
	return nil
}

// precedence levels (low to high)
var binPrec = map[string]int{
	"<==>": 1, "==>": 2, "||": 4, "&&": 5,
	"==": 6, "!=": 6, "<": 6, "<=": 6, ">": 6, ">=": 6,
	"+": 7, "-": 7, "*": 8, "/": 8, "%": 8,
}

func (l *specLexer) parseExpr(minPrec int) (*Spec, error) {
	lhs, err := l.parseUnary()
	if err != nil {
		return nil, err
	}
	for {
		t := l.peek()
		if t.k != "op" {
			break
		}
		if t.s == "?" && minPrec <= 3 {
			l.next()
			a, err := l.parseExpr(4)
			if err != nil {
				return nil, err
			}
			if err := l.expectOp(":"); err != nil {
				return nil, err
			}
			b, err := l.parseExpr(3)
			if err != nil {
				return nil, err
			}
			lhs = &Spec{Kind: SCond, A: lhs, B: a, C: b}
			continue
		}
		p, ok := binPrec[t.s]
		if !ok || p < minPrec {
			break
		}
		l.next()
		var rhs *Spec
		if t.s == "==>" {
			rhs, err = l.parseExpr(p) // right assoc
		} else {
			rhs, err = l.parseExpr(p + 1)
		}
		if err != nil {
			return nil, err
		}
		lhs = &Spec{Kind: SBinary, Op: t.s, A: lhs, B: rhs}
	}
	return lhs, nil
}

func (l *specLexer) parseUnary() (*Spec, error) {
	t := l.peek()
	if t.k == "op" {
		switch t.s {
		case "!":
			l.next()
			a, err := l.parseUnary()
			if err != nil {
				return nil, err
			}
			return &Spec{Kind: SUnary, Op: "!", A: a}, nil
		case "-":
			l.next()
			a, err := l.parseUnary()
			if err != nil {
				return nil, err
			}
			return &Spec{Kind: SUnary, Op: "-", A: a}, nil
		case "*":
			l.next()
			a, err := l.parseUnary()
			if err != nil {
				return nil, err
			}
			return &Spec{Kind: SDeref, A: a}, nil
		}
	}
	if t.k == "id" && (t.s == "forall" || t.s == "exists") {
		l.next()
		v := l.next()
		if v.k != "id" {
			return nil, fmt.Errorf("expected bound variable")
		}
		q := &Spec{Kind: SQuant, Op: t.s, Name: v.s}
		nt := l.peek()
		if nt.k == "id" && nt.s == "in" {
			l.next()
			lo, err := l.parseExpr(7)
			if err != nil {
				return nil, err
			}
			if err := l.expectOp(".."); err != nil {
				return nil, err
			}
			hi, err := l.parseExpr(7)
			if err != nil {
				return nil, err
			}
			q.B, q.C = lo, hi
		} else if nt.k == "id" || (nt.k == "op" && nt.s == "*") {
			if nt.k == "op" {
				l.next()
				q.TypeName = "*"
				nt = l.peek()
			}
			l.next()
			q.TypeName += nt.s
			for l.isOp(".") {
				l.next()
				q.TypeName += "." + l.next().s
			}
		} else {
			return nil, fmt.Errorf("expected 'in' or a type after bound variable")
		}
		if err := l.expectOp("::"); err != nil {
			return nil, err
		}
		body, err := l.parseExpr(0)
		if err != nil {
			return nil, err
		}
		q.A = body
		return q, nil
	}
	return l.parsePostfix()
}

func (l *specLexer) parsePostfix() (*Spec, error) {
	e, err := l.parsePrimary()
	if err != nil {
		return nil, err
	}
	for {
		switch {
		case l.isOp("."):
			l.next()
			t := l.next()
			if t.k != "id" {
				return nil, fmt.Errorf("expected field name after '.'")
			}
			e = &Spec{Kind: SSel, A: e, Name: t.s}
		case l.isOp("["):
			l.next()
			var lo, hi *Spec
			if !l.isOp(":") {
				lo, err = l.parseExpr(0)
				if err != nil {
					return nil, err
				}
			}
			if l.isOp(":") {
				l.next()
				if !l.isOp("]") {
					hi, err = l.parseExpr(0)
					if err != nil {
						return nil, err
					}
				}
				if err := l.expectOp("]"); err != nil {
					return nil, err
				}
				e = &Spec{Kind: SSlice, A: e, B: lo, C: hi}
			} else {
				if err := l.expectOp("]"); err != nil {
					return nil, err
				}
				e = &Spec{Kind: SIndex, A: e, B: lo}
			}
		case l.isOp("("):
			l.next()
			var args []*Spec
			for !l.isOp(")") {
				a, err := l.parseExpr(0)
				if err != nil {
					return nil, err
				}
				args = append(args, a)
				if l.isOp(",") {
					l.next()
				} else {
					break
				}
			}
			if err := l.expectOp(")"); err != nil {
				return nil, err
			}
			if e.Kind == SIdent && e.Name == "old" && len(args) == 1 {
				e = &Spec{Kind: SOld, A: args[0]}
			} else if e.Kind == SIdent {
				e = &Spec{Kind: SCall, Name: e.Name, Args: args}
			} else {
				e = &Spec{Kind: SCall, A: e, Args: args}
			}
		default:
			return e, nil
		}
	}
}

func (l *specLexer) parsePrimary() (*Spec, error) {
	t := l.next()
	switch t.k {
	case "id":
		switch t.s {
		case "true":
			return &Spec{Kind: SBool, Bool: true}, nil
		case "false":
			return &Spec{Kind: SBool, Bool: false}, nil
		case "nil":
			return &Spec{Kind: SNil}, nil
		}
		return &Spec{Kind: SIdent, Name: t.s}, nil
	case "int":
		v, err := strconv.ParseInt(t.s, 0, 64)
		if err != nil {
			return nil, err
		}
		return &Spec{Kind: SInt, Int: v}, nil
	case "str":
		return &Spec{Kind: SStr, Str: t.s}, nil
	case "op":
		if t.s == "(" {
			e, err := l.parseExpr(0)
			if err != nil {
				return nil, err
			}
			if err := l.expectOp(")"); err != nil {
				return nil, err
			}
			return e, nil
		}
	}
	return nil, fmt.Errorf("unexpected token %q", t.s)
}
