package main

import (
	"sort"
	"go/types"
	"encoding/json"
	"flag"
	"fmt"
	"os"
	"path/filepath"
	"strings"
	"sync"
	"time"

	"golang.org/x/tools/go/ssa"
)

func main() {
	// resolve type aliases eagerly: one heap component per type, whatever it is called
	os.Setenv("GODEBUG", "gotypesalias=0")
	if len(os.Args) < 2 {
		fmt.Fprintln(os.Stderr, "usage: govc dump|verify ...")
		os.Exit(2)
	}
	switch os.Args[1] {
	case "dump":
		cmdDump(os.Args[2:])
	case "verify":
		os.Exit(cmdVerify(os.Args[2:]))
	default:
		fmt.Fprintln(os.Stderr, "unknown command")
		os.Exit(2)
	}
}

func cmdDump(args []string) {
	fs := flag.NewFlagSet("dump", flag.ExitOnError)
	repo := fs.String("repo", "/repo", "")
	fs.Parse(args)
	rest := fs.Args()
	if len(rest) < 2 {
		fmt.Fprintln(os.Stderr, "usage: govc dump <pkgpattern> <func-substring>")
		os.Exit(2)
	}
	e, err := LoadEngine(*repo, []string{rest[0]}, "")
	if err != nil {
		fmt.Fprintln(os.Stderr, err)
		os.Exit(2)
	}
	keys := sortedKeys(e.fnByKey)
	for _, k := range keys {
		if strings.Contains(k, rest[1]) {
			fn := e.fnByKey[k]
			fmt.Printf("=== %s\n", k)
			fn.WriteTo(os.Stdout)
			li := e.loopsOf(fn)
			for _, h := range li.heads {
				fmt.Printf("loop %d: head block %d\n", li.ordinal[h], h.Index)
			}
		}
	}
}

type propConfig struct {
	Packages []string `json:"packages"`
}

type runOpts struct {
	tier      string
	timeoutMs int
	mode      string
	workers   int
	seed      int64
	keep      string
	knownObls map[string]bool
}

func cmdVerify(args []string) int {
	fs := flag.NewFlagSet("verify", flag.ExitOnError)
	repo := fs.String("repo", "/repo", "")
	verif := fs.String("verif", "/verif", "")
	props := fs.String("props", "", "comma separated property ids")
	tier := fs.String("tier", "quick", "")
	only := fs.String("funcs", "", "restrict to these function names (comma separated)")
	pkgsFlag := fs.String("pkgs", "", "package patterns (override)")
	verbose := fs.Bool("v", false, "")
	dumpQ := fs.String("dumpq", "", "write queries of failed/undecided obligations to this directory")
	evidence := fs.String("evidence", "", "evidence file to write (for a single property)")
	known := fs.String("known", "", "known findings file")
	replayDir := fs.String("replaydir", "", "directory for replay files")
	seed := fs.Int64("seed", 0, "")
	fs.Parse(args)
	t0 := time.Now()

	var propList []string
	for _, p := range strings.Split(*props, ",") {
		if p = strings.TrimSpace(p); p != "" {
			propList = append(propList, p)
		}
	}
	cfg := map[string]propConfig{}
	if b, err := os.ReadFile(filepath.Join(*verif, "props.json")); err == nil {
		if err := json.Unmarshal(b, &cfg); err != nil {
			fmt.Fprintln(os.Stderr, "props.json:", err)
			return 2
		}
	}
	patSet := map[string]bool{}
	if *pkgsFlag != "" {
		for _, p := range strings.Split(*pkgsFlag, ",") {
			patSet[p] = true
		}
	} else {
		for _, p := range propList {
			for _, pk := range cfg[p].Packages {
				patSet[pk] = true
			}
		}
	}
	if len(patSet) == 0 {
		fmt.Fprintln(os.Stderr, "no packages to load")
		return 2
	}
	e, err := LoadEngine(*repo, sortedKeys(patSet), filepath.Join(*verif, "contracts", "trusted"))
	if err != nil {
		fmt.Fprintln(os.Stderr, "load:", err)
		return 2
	}
	loadSecs := time.Since(t0).Seconds()

	opts := runOpts{tier: *tier, timeoutMs: 10000, mode: "quick", workers: 16}
	if *tier == "thorough" {
		opts.timeoutMs = 60000
		opts.mode = "all"
	}
	onlySet := map[string]bool{}
	for _, f := range strings.Split(*only, ",") {
		if f != "" {
			onlySet[f] = true
		}
	}
	opts.knownObls = map[string]bool{}
	for _, k := range loadKnown(*known) {
		if k.Kind == "finding" {
			opts.knownObls[k.Obligation] = true
		}
	}
	rep := e.VerifyProps(propList, onlySet, opts, *verbose)
	rep.LoadSecs = loadSecs
	rep.WallSecs = time.Since(t0).Seconds()
	if *dumpQ != "" {
		os.MkdirAll(*dumpQ, 0o755)
		pre := e.Prelude()
		for _, o := range rep.Obligations {
			if (o.Verdict != "discharged" || os.Getenv("GOVC_DUMPALL") != "") && o.Query != "" {
				os.WriteFile(filepath.Join(*dumpQ, mangle(o.Name)+fmt.Sprintf("_p%d.smt2", o.PathID)), []byte(pre+o.Query), 0o644)
			}
		}
	}
	opts.seed = *seed
	return e.Report(rep, propList, *verif, opts, *evidence, *known, *replayDir)
}

type Report struct {
	Units       []*Unit
	Obligations []*Obligation
	Errors      []string
	Missing     []string
	LoadSecs    float64
	WallSecs    float64
	SolverSecs  float64
}

func hasProp(ps []string, want map[string]bool) bool {
	for _, p := range ps {
		if want[p] {
			return true
		}
	}
	return false
}

func (e *Engine) VerifyProps(props []string, only map[string]bool, opts runOpts, verbose bool) *Report {
	want := map[string]bool{}
	for _, p := range props {
		want[p] = true
	}
	rep := &Report{}
	var units []*Unit
	for _, key := range e.cs.Order {
		c := e.cs.Funcs[key]
		if c.Trusted || c.Inline {
			continue
		}
		if len(want) > 0 && !hasProp(c.allProps(), want) {
			continue
		}
		if len(only) > 0 && !only[c.Name] {
			continue
		}
		if strings.HasPrefix(key, "functype::") {
			continue
		}
		fn := e.fnByKey[key]
		if fn == nil {
			if !strings.HasPrefix(c.Pkg, repoMod) {
				continue
			}
			// interface-method contracts have no body
			if strings.Contains(c.Name, ".") && !strings.HasPrefix(c.Name, "(") && c.Opts["interface"] != "" {
				continue
			}
			rep.Missing = append(rep.Missing, key)
			o := &Obligation{Name: c.Name + "/contract-target-missing", Kind: "contract-target-missing", Func: c.Name, Props: c.Props, Where: c.Where,
				Goal: "the function this contract is written for exists", Verdict: "failed", Result: SolverResult{Verdict: "sat", Solver: "loader"}}
			rep.Obligations = append(rep.Obligations, o)
			continue
		}
		units = append(units, e.NewUnit(fn, c))
	}
	// generate (sequential: the engine's global tables are not synchronised)
	for _, u := range units {
		t := time.Now()
		u.Run()
		if verbose {
			fmt.Fprintf(os.Stderr, "gen %-50s paths=%-6d obls=%-5d %.2fs\n", u.name, u.paths, len(u.obls), time.Since(t).Seconds())
		}
		// a callsite clause whose callee is never called would hold vacuously: report it
		for _, cs := range u.contract.CallSites {
			if !cs.Matched {
				u.fail(fmt.Sprintf("%s: callsite clause %q: no call of %s in this function (name the callee as the engine prints it, e.g. (*T).method)", cs.Clause.Where, cs.Clause.Src, cs.Callee))
			}
		}
		// must-fail canary: "ensures false" at function exit must be refutable, i.e. some return is reachable
		rep.Units = append(rep.Units, u)
		rep.Obligations = append(rep.Obligations, u.obls...)
		rep.Errors = append(rep.Errors, u.errs...)
	}
	e.callersOnlyObligations(rep, want)
	// axioms and lemmas
	e.loadAxioms(rep)
	e.lemmaObligations(rep, want)
	// solve
	prelude := e.Prelude()
	preludeQF := e.PreludeQF()
	// vacuity guard: the global axioms (string theory, ghost axioms, literal facts) must not be
	// contradictory - otherwise every obligation would be discharged vacuously
	{
		o := &Obligation{Name: "prelude/axioms-consistent", Kind: "cover", Func: "prelude", Props: props, Goal: "the global axioms are not contradictory", Cover: true, Query: "(check-sat)\n"}
		var r, r2 SolverResult
		var cw sync.WaitGroup
		cw.Add(2)
		go func() { defer cw.Done(); r = runSolver(solvers[0], prelude+"(check-sat)\n", 6000, false) }()
		go func() { defer cw.Done(); r2 = runSolver(solvers[1], prelude+"(check-sat)\n", 6000, false) }()
		cw.Wait()
		o.Result = r
		o.All = []SolverResult{r, r2}
		if r.Verdict == "unsat" || r2.Verdict == "unsat" {
			o.Verdict = "failed"
			rep.Errors = append(rep.Errors, "the global axioms are contradictory (prelude unsat): every proof would be vacuous")
		} else {
			o.Verdict = "discharged"
		}
		rep.Obligations = append(rep.Obligations, o)
	}
	var wg sync.WaitGroup
	sem := make(chan struct{}, opts.workers)
	var mu sync.Mutex
	// block-reachability candidates: per block, try candidates until one is satisfiable
	blockGroups := map[string][]*Obligation{}
	var blockOrder []string
	for _, o := range rep.Obligations {
		if o.Cover && strings.Contains(o.Name, "/cover-block#") {
			if _, ok := blockGroups[o.Name]; !ok {
				blockOrder = append(blockOrder, o.Name)
			}
			blockGroups[o.Name] = append(blockGroups[o.Name], o)
		}
	}
	for _, name := range blockOrder {
		grp := blockGroups[name]
		wg.Add(1)
		sem <- struct{}{}
		go func(grp []*Obligation) {
			defer wg.Done()
			defer func() { <-sem }()
			found := false
			for i, o := range grp {
				if found || i >= 60 {
					o.Verdict = "skipped"
					continue
				}
				r, all := solve(preludeQF+stripQuantified(o.Query), 5000, "quick")
				o.Result, o.All = r, all
				switch r.Verdict {
				case "sat":
					o.Verdict = "discharged"
					found = true
				case "unsat":
					o.Verdict = "failed"
				default:
					o.Verdict = "undecided"
				}
			}
		}(grp)
	}
	for _, o := range rep.Obligations {
		if o.Verdict != "" || o.Query == "" {
			continue
		}
		if o.Cover && strings.Contains(o.Name, "/cover-block#") {
			continue
		}
		if len(want) > 0 && len(o.Props) > 0 && !hasProp(o.Props, want) {
			// attributed to other properties only (their checks decide it)
			o.Verdict = "skipped"
			continue
		}
		if len(o.Query)+len(prelude) > 2_000_000 {
			o.Verdict = "error"
			o.Result = SolverResult{Verdict: "error", Output: "VC size cap exceeded"}
			continue
		}
		wg.Add(1)
		sem <- struct{}{}
		go func(o *Obligation) {
			defer wg.Done()
			defer func() { <-sem }()
			var r SolverResult
			var all []SolverResult
			if o.Cover {
				r, all = solve(preludeQF+stripQuantified(o.Query), 5000, "quick")
			} else {
				// 1. quantifier-free core first: unsat there implies unsat with the axioms
				qf, qall := solve(preludeQF+abstractQuantified(o.Query), opts.timeoutMs, opts.mode)
				all = append(all, qall...)
				if qf.Verdict == "unsat" || qf.Verdict == "disagree" {
					r = qf
					r.Solver += " (quantifier-free core)"
				} else {
					full, fall := solve(prelude+o.Query, opts.timeoutMs, opts.mode)
					all = append(all, fall...)
					r = full
					if full.Verdict != "unsat" && full.Verdict != "sat" && full.Verdict != "disagree" && qf.Verdict == "sat" {
						// candidate counterexample from the quantifier-free core; must be replayed
						r = qf
						r.Solver += " (candidate model: quantified axioms dropped)"
						o.Candidate = true
					}
				}
			}
			o.Result, o.All = r, all
			mu.Lock()
			rep.SolverSecs += r.Secs
			mu.Unlock()
			switch {
			case o.Cover:
				// reachability: sat expected; unsat means vacuous
				switch r.Verdict {
				case "sat":
					o.Verdict = "discharged"
				case "unsat":
					o.Verdict = "failed"
				case "disagree":
					o.Verdict = "error"
				default:
					o.Verdict = "undecided"
				}
			default:
				switch r.Verdict {
				case "unsat":
					o.Verdict = "discharged"
				case "sat":
					o.Verdict = "failed"
				case "disagree", "error":
					o.Verdict = "error"
				default:
					o.Verdict = "undecided"
				}
			}
		}(o)
	}
	wg.Wait()
	if verbose {
		slow := append([]*Obligation(nil), rep.Obligations...)
		sort.Slice(slow, func(i, j int) bool {
			si, sj := 0.0, 0.0
			for _, r := range slow[i].All {
				si += r.Secs
			}
			for _, r := range slow[j].All {
				sj += r.Secs
			}
			return si > sj
		})
		for i := 0; i < 12 && i < len(slow); i++ {
			tot := 0.0
			for _, r := range slow[i].All {
				tot += r.Secs
			}
			fmt.Fprintf(os.Stderr, "slow %6.1fs %s (%s)\n", tot, slow[i].Name, slow[i].Verdict)
		}
	}
	// second chance, unloaded: an obligation left open by a solver timeout while 16
	// queries ran side by side is retried alone, all solvers racing, with three times the time
	// (a proof that only fails under load would otherwise be a false alarm)
	retried, open := 0, 0
	for _, o := range rep.Obligations {
		if !o.Cover && o.Query != "" && (o.Verdict == "undecided" || (o.Verdict == "failed" && o.Candidate)) {
			open++
		}
	}
	for _, o := range rep.Obligations {
		if open > 8 {
			break // many open goals: not a load effect
		}
		if opts.knownObls[o.Name] {
			continue // a recorded finding: expected to fail
		}
		if o.Cover || o.Query == "" || retried >= 6 {
			continue
		}
		if !(o.Verdict == "undecided" || (o.Verdict == "failed" && o.Candidate)) {
			continue
		}
		retried++
		full, fall := solveRace(prelude+o.Query, 3*opts.timeoutMs)
		if verbose {
			fmt.Fprintf(os.Stderr, "retry %s p%d -> %s by %s (%.1fs)\n", o.Name, o.PathID, full.Verdict, full.Solver, full.Secs)
		}
		o.All = append(o.All, fall...)
		rep.SolverSecs += full.Secs
		if full.Verdict == "unsat" {
			full.Solver += " (retry, unloaded)"
			o.Result, o.Verdict, o.Candidate = full, "discharged", false
		}
	}
	return rep
}

func (e *Engine) lemmaObligations(rep *Report, want map[string]bool) {
	// lemmas are closed formulas proved from the axioms
	if len(e.cs.Lemmas) == 0 {
		return
	}
	u := &Unit{eng: e, name: "lemma", oblIndex: map[string]int{}, abstr: map[string]bool{}, trusted: map[string]bool{}, inlined: map[string]bool{}, contract: &FuncContract{}}
	for _, l := range e.cs.Lemmas {
		// label form: C07.pages_partition
		prop := strings.SplitN(l.Label, ".", 2)[0]
		if len(want) > 0 && !want[prop] {
			continue
		}
		st := &State{heap: map[string]Term{}, alloc: "A0"}
		e.gdecl("A0", "(declare-const A0 Int)")
		env := &SpecEnv{vars: map[string]Val{}}
		t, err := u.evalBool(st, env, l.Expr)
		if err != nil {
			rep.Errors = append(rep.Errors, fmt.Sprintf("%s: lemma %s: %v", l.Where, l.Label, err))
			continue
		}
		rep.Obligations = append(rep.Obligations, &Obligation{Name: "lemma/" + l.Label, Kind: "lemma", Func: "lemma", Props: []string{prop}, Where: l.Where,
			Goal: l.Expr.String(), Query: "(assert (not " + t + "))\n(check-sat)\n"})
	}
}

// ---------------------------------------------------------------------------

type groupedObl struct {
	Name     string
	Kind     string
	Props    []string
	Pos      string
	Where    string
	Goal     string
	Queries  int
	Verdict  string
	Solver   string
	Secs     float64
	Failing  *Obligation
}

func groupObligations(obls []*Obligation) []*groupedObl {
	idx := map[string]*groupedObl{}
	var out []*groupedObl
	rank := map[string]int{"discharged": 0, "undecided": 1, "error": 2, "failed": 3}
	for _, o := range obls {
		if o.Verdict == "skipped" {
			continue
		}
		key := o.Name + "@" + o.Pos
		if o.Kind == "cover" || o.Kind == "requires-sat" {
			key = o.Name
		}
		g := idx[key]
		if g == nil {
			g = &groupedObl{Name: o.Name, Kind: o.Kind, Props: o.Props, Pos: o.Pos, Where: o.Where, Goal: o.Goal, Verdict: "discharged"}
			if o.Kind == "cover" {
				g.Verdict = "failed" // at least one return must be reachable
			}
			idx[key] = g
			out = append(out, g)
		}
		g.Queries++
		g.Secs += o.Result.Secs
		if g.Solver == "" || o.Result.Solver != "syntactic" {
			g.Solver = o.Result.Solver
		}
		if o.Kind == "cover" {
			// any reachable return suffices
			if o.Verdict == "discharged" {
				g.Verdict = "discharged"
			} else if g.Verdict != "discharged" {
				if g.Failing == nil {
					g.Failing = o
				}
				if o.Verdict != "failed" {
					g.Verdict = o.Verdict
				}
			}
			continue
		}
		if rank[o.Verdict] > rank[g.Verdict] {
			g.Verdict = o.Verdict
			g.Failing = o
		}
	}
	return out
}

var _ = ssa.NaiveForm

// abstractQuantified replaces every outermost quantified subformula by a Boolean constant,
// the same constant for the same text. The result is weaker than the original (the meaning of
// the quantifiers is forgotten, their identity is kept): if it is unsatisfiable so is the
// original. A fact that is assumed and required with identical text is thus decided without
// any quantifier reasoning.
func abstractQuantified(q string) string {
	ids := map[string]int{}
	var decls []string
	var out strings.Builder
	lines := strings.Split(q, "\n")
	for _, l := range lines {
		if !strings.Contains(l, "(forall ") && !strings.Contains(l, "(exists ") {
			out.WriteString(l)
			out.WriteString("\n")
			continue
		}
		if !strings.HasPrefix(l, "(assert ") {
			// declarations / definitions with quantifiers (axioms given as define-fun etc.): drop
			continue
		}
		var b strings.Builder
		i := 0
		for i < len(l) {
			j1 := strings.Index(l[i:], "(forall ")
			j2 := strings.Index(l[i:], "(exists ")
			j := j1
			if j < 0 || (j2 >= 0 && j2 < j) {
				j = j2
			}
			if j < 0 {
				b.WriteString(l[i:])
				break
			}
			j += i
			b.WriteString(l[i:j])
			// match parentheses
			d, k := 0, j
			for ; k < len(l); k++ {
				if l[k] == '(' {
					d++
				} else if l[k] == ')' {
					d--
					if d == 0 {
						break
					}
				}
			}
			if k >= len(l) {
				// unbalanced within the line (multi-line term): give up on this line
				b.Reset()
				break
			}
			sub := l[j : k+1]
			id, ok := ids[sub]
			if !ok {
				id = len(ids) + 1
				ids[sub] = id
				decls = append(decls, fmt.Sprintf("(declare-const qb!%d Bool)", id))
			}
			fmt.Fprintf(&b, "qb!%d", id)
			i = k + 1
		}
		if b.Len() > 0 {
			out.WriteString(b.String())
			out.WriteString("\n")
		}
	}
	// declarations first: put them before the first assert
	res := out.String()
	if len(decls) == 0 {
		return res
	}
	idx := strings.Index(res, "(assert ")
	if idx < 0 {
		return strings.Join(decls, "\n") + "\n" + res
	}
	return res[:idx] + strings.Join(decls, "\n") + "\n" + res[idx:]
}

func stripQuantified(q string) string {
	var b strings.Builder
	for _, l := range strings.Split(q, "\n") {
		if strings.Contains(l, "(forall ") || strings.Contains(l, "(exists ") {
			continue
		}
		b.WriteString(l)
		b.WriteString("\n")
	}
	return b.String()
}

func (e *Engine) pkgByPath(path string) *types.Package {
	for _, p := range e.prog.AllPackages() {
		if p.Pkg.Path() == path {
			return p.Pkg
		}
	}
	return nil
}

func (e *Engine) loadAxioms(rep *Report) {
	if e.axiomsLoaded {
		return
	}
	e.axiomsLoaded = true
	u := &Unit{eng: e, name: "axiom", oblIndex: map[string]int{}, abstr: map[string]bool{}, trusted: map[string]bool{}, inlined: map[string]bool{}, contract: &FuncContract{}}
	for _, a := range e.cs.Axioms {
		st := &State{heap: map[string]Term{}, alloc: "A0"}
		env := &SpecEnv{vars: map[string]Val{}, pkg: e.pkgByPath(a.Pkg)}
		t, err := u.evalBool(st, env, a.Expr)
		if err != nil {
			rep.Errors = append(rep.Errors, fmt.Sprintf("%s: axiom %s: %v", a.Where, a.Label, err))
			continue
		}
		e.gaxioms = append(e.gaxioms, "(assert "+t+") ; axiom "+a.Label)
	}
}

// callersOnlyObligations: frame-style obligations over the static call graph of the
// loaded repository packages: a function may only be called from the listed functions.
func (e *Engine) callersOnlyObligations(rep *Report, want map[string]bool) {
	for _, co := range e.cs.Callers {
		if len(want) > 0 && !hasProp(co.Props, want) {
			continue
		}
		allowed := map[string]bool{}
		for _, a := range co.Allowed {
			allowed[a] = true
		}
		var bad []string
		sites := 0
		for _, key := range sortedKeys(e.fnByKey) {
			fn := e.fnByKey[key]
			if !strings.HasPrefix(fnPkgPath(fn), repoMod) || fn.Blocks == nil {
				continue
			}
			for _, b := range fn.Blocks {
				for _, in := range b.Instrs {
					ci, ok := in.(ssa.CallInstruction)
					if !ok {
						continue
					}
					cal := ci.Common().StaticCallee()
					if cal == nil || !strings.HasSuffix(fnKey(cal), co.Callee) {
						continue
					}
					sites++
					outer := fn
					for outer.Parent() != nil {
						outer = outer.Parent()
					}
					nm := stripMod(fnPkgPath(outer)) + "::" + relName(outer)
					if !allowed[nm] && !allowed[relName(outer)] {
						bad = append(bad, nm+" at "+e.posStr(in.Pos()))
					}
				}
			}
		}
		o := &Obligation{Name: "frame/callers-only." + co.Callee, Kind: "frame", Func: "call graph", Props: co.Props, Where: co.Where,
			Goal: fmt.Sprintf("%s is called only from %s (%d call sites found in the loaded packages)", co.Callee, strings.Join(co.Allowed, ", "), sites)}
		if len(bad) == 0 && sites > 0 {
			o.Verdict = "discharged"
			o.Result = SolverResult{Verdict: "unsat", Solver: "call-graph scan"}
		} else {
			o.Verdict = "failed"
			o.Result = SolverResult{Verdict: "sat", Solver: "call-graph scan", Output: "unexpected callers: " + strings.Join(bad, "; ")}
			o.Goal += " -- unexpected callers: " + strings.Join(bad, "; ")
			if sites == 0 {
				o.Goal += " -- no call site found (contract is vacuous)"
			}
		}
		rep.Obligations = append(rep.Obligations, o)
	}
}
