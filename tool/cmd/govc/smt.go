package main

import (
	"bytes"
	"context"
	"fmt"
	"os/exec"
	"regexp"
	"strings"
	"time"
)

type Term = string

func sAnd(ts ...Term) Term {
	var out []Term
	for _, t := range ts {
		if t == "true" {
			continue
		}
		if t == "false" {
			return "false"
		}
		out = append(out, t)
	}
	switch len(out) {
	case 0:
		return "true"
	case 1:
		return out[0]
	}
	return "(and " + strings.Join(out, " ") + ")"
}

func sOr(ts ...Term) Term {
	var out []Term
	for _, t := range ts {
		if t == "false" {
			continue
		}
		if t == "true" {
			return "true"
		}
		out = append(out, t)
	}
	switch len(out) {
	case 0:
		return "false"
	case 1:
		return out[0]
	}
	return "(or " + strings.Join(out, " ") + ")"
}

func sNot(t Term) Term {
	switch t {
	case "true":
		return "false"
	case "false":
		return "true"
	}
	if strings.HasPrefix(t, "(not ") && balancedTail(t[5:len(t)-1]) {
		return t[5 : len(t)-1]
	}
	return "(not " + t + ")"
}

func balancedTail(s string) bool {
	d := 0
	for i, c := range s {
		switch c {
		case '(':
			d++
		case ')':
			d--
			if d == 0 && i != len(s)-1 {
				return false
			}
			if d < 0 {
				return false
			}
		case ' ':
			if d == 0 {
				return false
			}
		}
	}
	return d == 0
}

func sImp(a, b Term) Term {
	if a == "true" {
		return b
	}
	if a == "false" || b == "true" {
		return "true"
	}
	return "(=> " + a + " " + b + ")"
}

var numeral = regexp.MustCompile(`^(\d+|\(- \d+\))$`)

func sEq(a, b Term) Term {
	if a == b {
		return "true"
	}
	if numeral.MatchString(a) && numeral.MatchString(b) {
		return "false"
	}
	if (a == "true" && b == "false") || (a == "false" && b == "true") {
		return "false"
	}
	return "(= " + a + " " + b + ")"
}

func sIte(c, a, b Term) Term {
	if c == "true" {
		return a
	}
	if c == "false" {
		return b
	}
	if a == b {
		return a
	}
	return "(ite " + c + " " + a + " " + b + ")"
}

func sApp(f string, args ...Term) Term {
	if len(args) == 0 {
		return f
	}
	return "(" + f + " " + strings.Join(args, " ") + ")"
}

func sInt(n int64) Term {
	if n < 0 {
		return fmt.Sprintf("(- %d)", -n)
	}
	return fmt.Sprintf("%d", n)
}

var symSafe = regexp.MustCompile(`[^A-Za-z0-9_.$]`)

func mangle(s string) string {
	return symSafe.ReplaceAllString(s, "_")
}

// ---------------------------------------------------------------------------
// solver runner

type SolverResult struct {
	Verdict string // unsat | sat | unknown | timeout | error
	Solver  string
	Secs    float64
	Output  string
}

type solverSpec struct {
	name string
	argv func(timeoutMs int) []string
	pre  string
}

var solvers = []solverSpec{
	{"z3-5.1.0", func(t int) []string { return []string{"z3-new", "-in", fmt.Sprintf("-t:%d", t)} }, ""},
	{"z3-4.8.12", func(t int) []string { return []string{"z3", "-in", fmt.Sprintf("-t:%d", t)} }, ""},
	{"cvc5-1.0.3", func(t int) []string {
		return []string{"cvc5", "--lang=smt2", fmt.Sprintf("--tlimit=%d", t), "--produce-models"}
	}, "(set-logic ALL)\n"},
}

func runSolver(sp solverSpec, query string, timeoutMs int, wantModel bool) SolverResult {
	ctx, cancel := context.WithTimeout(context.Background(), time.Duration(timeoutMs+2000)*time.Millisecond)
	defer cancel()
	argv := sp.argv(timeoutMs)
	cmd := exec.CommandContext(ctx, argv[0], argv[1:]...)
	q := sp.pre + query
	if wantModel {
		q += "(get-model)\n"
	}
	cmd.Stdin = strings.NewReader(q)
	var out bytes.Buffer
	cmd.Stdout = &out
	cmd.Stderr = &out
	t0 := time.Now()
	err := cmd.Run()
	secs := time.Since(t0).Seconds()
	text := out.String()
	first := strings.TrimSpace(strings.SplitN(text, "\n", 2)[0])
	res := SolverResult{Solver: sp.name, Secs: secs, Output: text}
	switch {
	case first == "unsat":
		res.Verdict = "unsat"
	case first == "sat":
		res.Verdict = "sat"
	case first == "unknown":
		res.Verdict = "unknown"
	case ctx.Err() != nil || strings.Contains(text, "timeout") || strings.Contains(text, "interrupted"):
		res.Verdict = "timeout"
	default:
		res.Verdict = "error"
		if err == nil && first == "" {
			res.Verdict = "timeout"
		}
	}
	return res
}

// solve decides one query. mode "quick": z3-new first, others as fallback on
// unknown/timeout. mode "all": every solver must answer; disagreement is an error.
func solve(query string, timeoutMs int, mode string) (SolverResult, []SolverResult) {
	var all []SolverResult
	if mode == "all" {
		ch := make(chan SolverResult, len(solvers))
		for _, sp := range solvers {
			sp := sp
			go func() { ch <- runSolver(sp, query, timeoutMs, false) }()
		}
		for range solvers {
			all = append(all, <-ch)
		}
		var sat, unsat *SolverResult
		for i := range all {
			switch all[i].Verdict {
			case "sat":
				sat = &all[i]
			case "unsat":
				unsat = &all[i]
			}
		}
		if sat != nil && unsat != nil {
			return SolverResult{Verdict: "disagree", Solver: sat.Solver + " vs " + unsat.Solver, Output: sat.Output + "\n---\n" + unsat.Output}, all
		}
		if unsat != nil {
			return *unsat, all
		}
		if sat != nil {
			return *sat, all
		}
		return all[0], all
	}
	r := runSolver(solvers[0], query, timeoutMs, false)
	all = append(all, r)
	if r.Verdict == "unsat" || r.Verdict == "sat" {
		return r, all
	}
	ch := make(chan SolverResult, 2)
	for _, sp := range solvers[1:] {
		sp := sp
		go func() { ch <- runSolver(sp, query, timeoutMs, false) }()
	}
	best := r
	for range solvers[1:] {
		x := <-ch
		all = append(all, x)
		if x.Verdict == "unsat" || x.Verdict == "sat" {
			if best.Verdict != "unsat" && best.Verdict != "sat" {
				best = x
			} else if best.Verdict != x.Verdict {
				return SolverResult{Verdict: "disagree", Solver: best.Solver + " vs " + x.Solver}, all
			}
		}
	}
	return best, all
}

// solveRace runs every solver side by side and returns as soon as one gives a definitive
// answer (unsat / sat); the others are abandoned.
func solveRace(query string, timeoutMs int) (SolverResult, []SolverResult) {
	ch := make(chan SolverResult, len(solvers))
	for _, sp := range solvers {
		sp := sp
		go func() { ch <- runSolver(sp, query, timeoutMs, false) }()
	}
	var all []SolverResult
	for range solvers {
		r := <-ch
		all = append(all, r)
		if r.Verdict == "unsat" || r.Verdict == "sat" {
			return r, all
		}
	}
	return all[0], all
}

func getModel(query string, timeoutMs int) string {
	r := runSolver(solvers[0], query, timeoutMs, true)
	if r.Verdict == "sat" {
		return r.Output
	}
	r = runSolver(solvers[1], query, timeoutMs, true)
	return r.Output
}
