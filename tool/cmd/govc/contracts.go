package main

import (
	"bufio"
	"fmt"
	"os"
	"path/filepath"
	"regexp"
	"sort"
	"strconv"
	"strings"
)

// A Clause is one requires/ensures/invariant/... line.
type Clause struct {
	More  []*Spec // further components of a lexicographic decreases clause
	Label string
	Props []string // explicit attribution; empty => the block's props
	Expr  *Spec
	Src   string
	Where string // file:line of the contract line
}

type LoopSpec struct {
	Invariants []*Clause
	Decreases  *Clause
	Steps      []*Clause // obligations at the back edge only ("whenever the loop goes round again, ...")
	Unroll     int       // >0: the loop is unrolled; reaching the head more than Unroll+1 times is an obligation (unwinding assertion), so the unrolling is complete when it discharges
}

type FuncContract struct {
	Pkg       string // package path
	Name      string // RelString form
	Props     []string
	Trusted   bool
	Inline    bool
	Pure      bool
	MayPanic  bool
	NoFrame   bool // do not generate frame obligations (modifies treated as assumed)
	Requires  []*Clause
	Ensures   []*Clause
	Modifies  []*Spec
	HasMod    bool
	ModAll    bool // "modifies *": callers havoc everything type-reachable
	Loops     map[int]*LoopSpec
	// loop specifications for loops of callees that are inlined into this function, written
	// in this function's vocabulary: key = callee name (RelString form), then loop ordinal
	InlinedLoops map[string]map[int]*LoopSpec
	Decreases *Clause
	Where     string
	Implements []string
	Like      []string
	Opts      map[string]string
	Used      bool
	CallSites []*CallSiteClause
	Updates   []*GhostUpdate
}

func (c *FuncContract) Key() string { return c.Pkg + "::" + c.Name }

type SpecFunc struct {
	Pkg    string
	Name   string
	Params []SpecParam
	Result string
	Body   *Spec
	Where  string
}

type SpecParam struct{ Name, Type string }

type GhostFunc struct {
	Pkg    string
	Name   string
	Params []string // sort names: int,bool,string,ref or type names
	Result string
	Where  string
}

type Axiom struct {
	Pkg   string
	Label string
	Expr  *Spec
	Where string
}

type ChanInv struct {
	Pkg      string
	ElemType string
	Expr     *Spec
	Where    string
}

type FieldInv struct {
	Pkg   string
	Type  string // short type key of the struct, e.g. checkgroup.concurrentCheckgroup
	Field string
	Expr  *Spec // over "val"
	Where string
}

type CallersOnly struct {
	Pkg     string
	Callee  string // key suffix, e.g. (*Config).MaxReadDepth
	Allowed []string
	Props   []string
	Where   string
}

// GhostUpdate: ghost assignment executed at every return of the function (ghost code).
type GhostUpdate struct {
	Var   string
	Expr  *Spec
	Where string
}

type CallSiteClause struct {
	Callee  string
	Clause  *Clause
	Matched bool // some call of Callee was met while the function was executed symbolically
}

type Contracts struct {
	FieldInvs []*FieldInv
	GlobalInvs []*FieldInv
	TypeInvs  []*FieldInv
	Callers   []*CallersOnly
	GhostVars map[string]string
	Monotone  map[string]bool // ghostvar <name> monotone
	GhostFields map[string]string
	Unfolds   map[string]*SpecFunc
	Funcs   map[string]*FuncContract
	Specs   map[string]*SpecFunc  // key pkg::name and bare name fallback
	Ghosts  map[string]*GhostFunc
	Axioms  []*Axiom
	Lemmas  []*Axiom
	ChanInv []*ChanInv
	Order   []string
}

func NewContracts() *Contracts {
	return &Contracts{Funcs: map[string]*FuncContract{}, Specs: map[string]*SpecFunc{}, Ghosts: map[string]*GhostFunc{}, GhostVars: map[string]string{}, Monotone: map[string]bool{}, GhostFields: map[string]string{}, Unfolds: map[string]*SpecFunc{}}
}

var clauseHead = regexp.MustCompile(`^(requires|ensures|invariant|decreases)(\[[A-Z0-9, ]+\])?\s+(?:([A-Za-z_][A-Za-z0-9_.\-]*):\s+)?(.*)$`)

func parseClause(kind, rest, where string) (*Clause, error) {
	m := clauseHead.FindStringSubmatch(kind + " " + rest)
	if m == nil {
		return nil, fmt.Errorf("%s: cannot parse clause %q", where, kind+" "+rest)
	}
	c := &Clause{Where: where}
	if m[2] != "" {
		for _, p := range strings.Split(strings.Trim(m[2], "[]"), ",") {
			c.Props = append(c.Props, strings.TrimSpace(p))
		}
	}
	c.Label = m[3]
	src := m[4]
	// a label must not swallow "x: y" ternaries: labels never contain spaces, and the
	// regexp requires ": " right after an identifier at the very start.
	e, err := ParseSpec(src)
	if err != nil {
		// retry treating the label as part of the expression
		if c.Label != "" {
			e2, err2 := ParseSpec(c.Label + ": " + src)
			if err2 == nil {
				c.Label = ""
				c.Expr = e2
				c.Src = e2.Src
				return c, nil
			}
		}
		return nil, fmt.Errorf("%s: %v", where, err)
	}
	c.Expr = e
	c.Src = src
	return c, nil
}

// LoadContractLines parses contract lines (already stripped of the "//@" prefix).
func (cs *Contracts) LoadLines(pkg string, lines []string, wheres []string) error {
	var cur *FuncContract
	for i, raw := range lines {
		line := strings.TrimSpace(raw)
		where := wheres[i]
		if line == "" || strings.HasPrefix(line, "#") {
			continue
		}
		fields := strings.Fields(line)
		head := fields[0]
		rest := strings.TrimSpace(strings.TrimPrefix(line, head))
		if strings.HasPrefix(head, "callers-only[") {
			head = "callers-only"
		}
		for _, kw := range []string{"requires", "ensures", "decreases"} {
			if strings.HasPrefix(head, kw+"[") {
				rest = strings.TrimSpace(strings.TrimPrefix(line, kw))
				head = kw
			}
		}
		switch head {
		case "package":
			pkg = rest
			cur = nil
		case "func":
			cur = &FuncContract{Pkg: pkg, Name: rest, Loops: map[int]*LoopSpec{}, Where: where, Opts: map[string]string{}}
			if idx := strings.Index(rest, "::"); idx >= 0 {
				cur.Pkg = rest[:idx]
				cur.Name = rest[idx+2:]
			}
			if _, dup := cs.Funcs[cur.Key()]; dup {
				return fmt.Errorf("%s: duplicate contract for %s", where, cur.Key())
			}
			cs.Funcs[cur.Key()] = cur
			cs.Order = append(cs.Order, cur.Key())
		case "props":
			if cur == nil {
				return fmt.Errorf("%s: props outside func block", where)
			}
			cur.Props = append(cur.Props, fields[1:]...)
		case "trusted":
			cur.Trusted = true
		case "inline":
			cur.Inline = true
		case "pure":
			cur.Pure = true
		case "may-panic":
			cur.MayPanic = true
		case "noframe":
			cur.NoFrame = true
		case "opt":
			if len(fields) >= 3 {
				cur.Opts[fields[1]] = strings.Join(fields[2:], " ")
			} else if len(fields) == 2 {
				cur.Opts[fields[1]] = "true"
			}
		case "like":
			cur.Like = append(cur.Like, rest)
		case "implements":
			cur.Implements = append(cur.Implements, rest)
		case "requires", "ensures":
			if cur == nil {
				return fmt.Errorf("%s: clause outside func block", where)
			}
			var c *Clause
			var err error
			if strings.HasPrefix(rest, "[") {
				c, err = parseClause(head+rest[:strings.Index(rest, "]")+1], strings.TrimSpace(rest[strings.Index(rest, "]")+1:]), where)
			} else {
				c, err = parseClause(head, rest, where)
			}
			if err != nil {
				return err
			}
			if head == "requires" {
				cur.Requires = append(cur.Requires, c)
			} else {
				cur.Ensures = append(cur.Ensures, c)
			}
		case "decreases":
			attr := ""
			if strings.HasPrefix(rest, "[") {
				attr = rest[:strings.Index(rest, "]")+1]
				rest = strings.TrimSpace(rest[strings.Index(rest, "]")+1:])
			}
			parts := splitTopLevel(rest, ',')
			c, err := parseClause(head+attr, strings.TrimSpace(parts[0]), where)
			if err != nil {
				return err
			}
			for _, p := range parts[1:] {
				e, err := ParseSpec(strings.TrimSpace(p))
				if err != nil {
					return fmt.Errorf("%s: %v", where, err)
				}
				c.More = append(c.More, e)
			}
			cur.Decreases = c
		case "modifies":
			if cur == nil {
				return fmt.Errorf("%s: modifies outside func block", where)
			}
			cur.HasMod = true
			if rest == "*" {
				cur.ModAll = true
				break
			}
			if rest == "" || rest == "nothing" {
				break
			}
			for _, part := range splitTopLevel(rest, ',') {
				e, err := ParseSpec(strings.TrimSpace(part))
				if err != nil {
					return fmt.Errorf("%s: %v", where, err)
				}
				cur.Modifies = append(cur.Modifies, e)
			}
		case "loop", "inlined":
			loopsMap := map[int]*LoopSpec(nil)
			if cur != nil {
				loopsMap = cur.Loops
			}
			if fields[0] == "inlined" {
				// inlined <callee> loop N <kind> ...
				if cur == nil || len(fields) < 6 || fields[2] != "loop" {
					return fmt.Errorf("%s: bad inlined-loop clause (inlined <callee> loop N kind ...)", where)
				}
				if cur.InlinedLoops == nil {
					cur.InlinedLoops = map[string]map[int]*LoopSpec{}
				}
				if cur.InlinedLoops[fields[1]] == nil {
					cur.InlinedLoops[fields[1]] = map[int]*LoopSpec{}
				}
				loopsMap = cur.InlinedLoops[fields[1]]
				fields = fields[2:]
				line = strings.TrimSpace(strings.SplitN(line, fields[0]+" ", 2)[1])
				line = "loop " + strings.TrimSpace(strings.TrimPrefix(line, "loop"))
			}
			if cur == nil || len(fields) < 4 {
				return fmt.Errorf("%s: bad loop clause", where)
			}
			n, err := strconv.Atoi(fields[1])
			if err != nil {
				return fmt.Errorf("%s: bad loop ordinal", where)
			}
			kind := fields[2]
			if kind == "unroll" {
				k, err := strconv.Atoi(fields[3])
				if err != nil || k < 1 || k > 16 {
					return fmt.Errorf("%s: loop unroll needs a count in 1..16", where)
				}
				if loopsMap[n] == nil {
					loopsMap[n] = &LoopSpec{}
				}
				loopsMap[n].Unroll = k
				break
			}
			r := strings.TrimSpace(strings.SplitN(line, kind, 2)[1])
			attr := ""
			if ix := strings.Index(kind, "["); ix > 0 {
				attr = kind[ix:]
				kind = kind[:ix]
			}
			pk := kind
			if kind == "step" {
				pk = "invariant"
			}
			c, err := parseClause(pk+attr, r, where)
			if err != nil {
				return err
			}
			ls := loopsMap[n]
			if ls == nil {
				ls = &LoopSpec{}
				loopsMap[n] = ls
			}
			if kind == "invariant" {
				ls.Invariants = append(ls.Invariants, c)
			} else if kind == "decreases" {
				ls.Decreases = c
			} else if kind == "step" {
				ls.Steps = append(ls.Steps, c)
			} else {
				return fmt.Errorf("%s: unknown loop clause %q", where, kind)
			}
		case "spec":
			sf, err := parseSpecFunc(pkg, rest, where)
			if err != nil {
				return err
			}
			cs.Specs[pkg+"::"+sf.Name] = sf
			if _, ok := cs.Specs[sf.Name]; !ok {
				cs.Specs[sf.Name] = sf
			}
			cur = nil
		case "ghost":
			gf, err := parseGhostFunc(pkg, rest, where)
			if err != nil {
				return err
			}
			if old, ok := cs.Ghosts[gf.Name]; ok && (strings.Join(old.Params, ",") != strings.Join(gf.Params, ",") || old.Result != gf.Result) {
				return fmt.Errorf("%s: ghost %s redeclared with a different signature", where, gf.Name)
			}
			cs.Ghosts[gf.Name] = gf
			cur = nil
		case "axiom", "lemma":
			idx := strings.Index(rest, ":")
			if idx < 0 {
				return fmt.Errorf("%s: axiom needs a label", where)
			}
			e, err := ParseSpec(strings.TrimSpace(rest[idx+1:]))
			if err != nil {
				return fmt.Errorf("%s: %v", where, err)
			}
			ax := &Axiom{Pkg: pkg, Label: strings.TrimSpace(rest[:idx]), Expr: e, Where: where}
			if head == "axiom" {
				cs.Axioms = append(cs.Axioms, ax)
			} else {
				cs.Lemmas = append(cs.Lemmas, ax)
			}
			cur = nil
		case "ghostvar":
			if len(fields) != 3 {
				return fmt.Errorf("%s: ghostvar <name> <int|bool>", where)
			}
			srt := "(Array Int Int)"
			_ = srt
			if fields[2] == "bool" {
				cs.GhostVars[fields[1]] = "Bool"
			} else if fields[2] == "monotone" {
				// an integer ghost variable that only grows, and only through contracts that list
				// it: every function may change it (no frame obligation), every call leaves it
				// at least as large as it was
				cs.GhostVars[fields[1]] = "Int"
				cs.Monotone[fields[1]] = true
			} else {
				cs.GhostVars[fields[1]] = "Int"
			}
			cur = nil
		case "unfold":
			// unfold name(p T) bool = expr : whenever name(x) is assumed, expr[p:=x] is assumed too
			sf, err := parseSpecFunc(pkg, rest, where)
			if err != nil {
				return err
			}
			cs.Unfolds[sf.Name] = sf
			cur = nil
		case "ghostfield":
			if len(fields) != 3 {
				return fmt.Errorf("%s: ghostfield <name> <type>", where)
			}
			cs.GhostFields[fields[1]] = fields[2]
			cur = nil
		case "typeinv":
			idx := strings.Index(rest, ":")
			if idx < 0 {
				return fmt.Errorf("%s: typeinv needs a type", where)
			}
			e, err := ParseSpec(strings.TrimSpace(rest[idx+1:]))
			if err != nil {
				return fmt.Errorf("%s: %v", where, err)
			}
			cs.TypeInvs = append(cs.TypeInvs, &FieldInv{Pkg: pkg, Type: strings.TrimSpace(rest[:idx]), Expr: e, Where: where})
			cur = nil
		case "globalinv":
			idx := strings.Index(rest, ":")
			if idx < 0 {
				return fmt.Errorf("%s: globalinv needs a target", where)
			}
			e, err := ParseSpec(strings.TrimSpace(rest[idx+1:]))
			if err != nil {
				return fmt.Errorf("%s: %v", where, err)
			}
			cs.GlobalInvs = append(cs.GlobalInvs, &FieldInv{Pkg: pkg, Type: strings.TrimSpace(rest[:idx]), Expr: e, Where: where})
			cur = nil
		case "fieldinv":
			// fieldinv <type>.<field>: expr over val
			idx := strings.Index(rest, ":")
			if idx < 0 {
				return fmt.Errorf("%s: fieldinv needs a target", where)
			}
			tgt := strings.TrimSpace(rest[:idx])
			dot := strings.LastIndex(tgt, ".")
			e, err := ParseSpec(strings.TrimSpace(rest[idx+1:]))
			if err != nil {
				return fmt.Errorf("%s: %v", where, err)
			}
			cs.FieldInvs = append(cs.FieldInvs, &FieldInv{Pkg: pkg, Type: tgt[:dot], Field: tgt[dot+1:], Expr: e, Where: where})
			cur = nil
		case "callers-only":
			// callers-only[C02] <callee-key> : f1, f2
			m := regexp.MustCompile(`^(?:\[([A-Z0-9, ]+)\]\s*)?(.*?)\s*:\s*(.*)$`).FindStringSubmatch(strings.TrimSpace(strings.TrimPrefix(line, "callers-only")))
			if m == nil {
				return fmt.Errorf("%s: bad callers-only", where)
			}
			co := &CallersOnly{Pkg: pkg, Callee: m[2], Where: where}
			for _, p := range strings.Split(m[1], ",") {
				if p = strings.TrimSpace(p); p != "" {
					co.Props = append(co.Props, p)
				}
			}
			for _, a := range strings.Split(m[3], ",") {
				if a = strings.TrimSpace(a); a != "" {
					co.Allowed = append(co.Allowed, a)
				}
			}
			cs.Callers = append(cs.Callers, co)
			cur = nil
		case "ghost-at-return":
			// ghost-at-return <var> := <expr>
			if cur == nil {
				return fmt.Errorf("%s: ghost-at-return outside func block", where)
			}
			ix := strings.Index(rest, ":=")
			if ix < 0 {
				return fmt.Errorf("%s: ghost-at-return needs :=", where)
			}
			e, err := ParseSpec(strings.TrimSpace(rest[ix+2:]))
			if err != nil {
				return fmt.Errorf("%s: %v", where, err)
			}
			cur.Updates = append(cur.Updates, &GhostUpdate{Var: strings.TrimSpace(rest[:ix]), Expr: e, Where: where})
		case "callsite":
			// callsite <callee-name> requires[Cxx] label: expr
			if cur == nil {
				return fmt.Errorf("%s: callsite outside func block", where)
			}
			ix := strings.Index(rest, " requires")
			if ix < 0 {
				return fmt.Errorf("%s: callsite needs a requires clause", where)
			}
			callee := strings.TrimSpace(rest[:ix])
			rr := strings.TrimSpace(rest[ix+1:])
			f2 := strings.Fields(rr)
			c, err := parseClause("requires"+strings.TrimPrefix(f2[0], "requires"), strings.TrimSpace(strings.TrimPrefix(rr, f2[0])), where)
			if err != nil {
				return err
			}
			cur.CallSites = append(cur.CallSites, &CallSiteClause{Callee: callee, Clause: c})
		case "chaninv":
			idx := strings.Index(rest, ":")
			if idx < 0 {
				return fmt.Errorf("%s: chaninv needs a type", where)
			}
			e, err := ParseSpec(strings.TrimSpace(rest[idx+1:]))
			if err != nil {
				return fmt.Errorf("%s: %v", where, err)
			}
			cs.ChanInv = append(cs.ChanInv, &ChanInv{Pkg: pkg, ElemType: strings.TrimSpace(rest[:idx]), Expr: e, Where: where})
			cur = nil
		default:
			return fmt.Errorf("%s: unknown contract directive %q", where, head)
		}
	}
	return nil
}

func splitTopLevel(s string, sep rune) []string {
	var out []string
	depth := 0
	last := 0
	for i, c := range s {
		switch c {
		case '(', '[':
			depth++
		case ')', ']':
			depth--
		default:
			if c == sep && depth == 0 {
				out = append(out, s[last:i])
				last = i + 1
			}
		}
	}
	out = append(out, s[last:])
	return out
}

var specFuncRe = regexp.MustCompile(`^([A-Za-z_][A-Za-z0-9_]*)\((.*?)\)\s*([A-Za-z_*.\[\]0-9]+)\s*=\s*(.*)$`)

func parseSpecFunc(pkg, rest, where string) (*SpecFunc, error) {
	m := specFuncRe.FindStringSubmatch(rest)
	if m == nil {
		return nil, fmt.Errorf("%s: cannot parse spec function %q", where, rest)
	}
	sf := &SpecFunc{Pkg: pkg, Name: m[1], Result: m[3], Where: where}
	if strings.TrimSpace(m[2]) != "" {
		for _, p := range strings.Split(m[2], ",") {
			f := strings.Fields(strings.TrimSpace(p))
			if len(f) != 2 {
				return nil, fmt.Errorf("%s: bad spec parameter %q", where, p)
			}
			sf.Params = append(sf.Params, SpecParam{f[0], f[1]})
		}
	}
	e, err := ParseSpec(m[4])
	if err != nil {
		return nil, fmt.Errorf("%s: %v", where, err)
	}
	sf.Body = e
	return sf, nil
}

var ghostFuncRe = regexp.MustCompile(`^([A-Za-z_][A-Za-z0-9_]*)\((.*?)\)\s*([A-Za-z_*.\[\]0-9]+)\s*$`)

func parseGhostFunc(pkg, rest, where string) (*GhostFunc, error) {
	m := ghostFuncRe.FindStringSubmatch(rest)
	if m == nil {
		return nil, fmt.Errorf("%s: cannot parse ghost function %q", where, rest)
	}
	gf := &GhostFunc{Pkg: pkg, Name: m[1], Result: m[3], Where: where}
	if strings.TrimSpace(m[2]) != "" {
		for _, p := range strings.Split(m[2], ",") {
			f := strings.Fields(strings.TrimSpace(p))
			gf.Params = append(gf.Params, f[len(f)-1])
		}
	}
	return gf, nil
}

// LoadSpecFile loads a trusted .spec file (plain lines, '#' comments).
func (cs *Contracts) LoadSpecFile(path string) error {
	f, err := os.Open(path)
	if err != nil {
		return err
	}
	defer f.Close()
	var lines, wheres []string
	sc := bufio.NewScanner(f)
	sc.Buffer(make([]byte, 1<<20), 1<<20)
	n := 0
	for sc.Scan() {
		n++
		lines = append(lines, sc.Text())
		wheres = append(wheres, fmt.Sprintf("%s:%d", filepath.Base(path), n))
	}
	return cs.LoadLines("", lines, wheres)
}

func (cs *Contracts) LoadSpecDir(dir string) error {
	ents, err := filepath.Glob(filepath.Join(dir, "*.spec"))
	if err != nil {
		return err
	}
	sort.Strings(ents)
	for _, e := range ents {
		if err := cs.LoadSpecFile(e); err != nil {
			return err
		}
	}
	return nil
}

// ResolveLikes copies requires/ensures/modifies of the referenced blocks.
func (cs *Contracts) ResolveLikes() error {
	for _, k := range cs.Order {
		c := cs.Funcs[k]
		for _, l := range c.Like {
			key := l
			if !strings.Contains(key, "::") {
				key = c.Pkg + "::" + l
			}
			o, ok := cs.Funcs[key]
			if !ok {
				return fmt.Errorf("%s: like %q: no such contract", c.Where, l)
			}
			c.Requires = append(append([]*Clause{}, o.Requires...), c.Requires...)
			c.Ensures = append(append([]*Clause{}, o.Ensures...), c.Ensures...)
			if o.HasMod {
				c.HasMod = true
				c.Modifies = append(c.Modifies, o.Modifies...)
				c.ModAll = c.ModAll || o.ModAll
			}
			for k2, v := range o.Opts {
				if _, ok := c.Opts[k2]; !ok {
					c.Opts[k2] = v
				}
			}
		}
		c.Like = nil
	}
	return nil
}

// allProps: the block's properties plus every property a clause is attributed to.
func (c *FuncContract) allProps() []string {
	set := map[string]bool{}
	var out []string
	add := func(ps []string) {
		for _, p := range ps {
			if !set[p] {
				set[p] = true
				out = append(out, p)
			}
		}
	}
	add(c.Props)
	for _, cl := range c.Requires {
		add(cl.Props)
	}
	for _, cl := range c.Ensures {
		add(cl.Props)
	}
	if c.Decreases != nil {
		add(c.Decreases.Props)
	}
	for _, cs := range c.CallSites {
		add(cs.Clause.Props)
	}
	for _, l := range c.Loops {
		for _, cl := range l.Invariants {
			add(cl.Props)
		}
	}
	return out
}
