package main

import (
	"bufio"
	"encoding/json"
	"fmt"
	"os"
	"path/filepath"
	"sort"
	"strings"
)

type knownFinding struct {
	Kind       string // finding | fixed
	Property   string
	Obligation string
	Rest       string
}

func loadKnown(path string) []knownFinding {
	var out []knownFinding
	f, err := os.Open(path)
	if err != nil {
		return nil
	}
	defer f.Close()
	sc := bufio.NewScanner(f)
	for sc.Scan() {
		line := strings.TrimSpace(sc.Text())
		if line == "" || strings.HasPrefix(line, "#") {
			continue
		}
		var k knownFinding
		switch {
		case strings.HasPrefix(line, "finding:"):
			k.Kind = "finding"
			line = strings.TrimSpace(strings.TrimPrefix(line, "finding:"))
		case strings.HasPrefix(line, "fixed:"):
			k.Kind = "fixed"
			line = strings.TrimSpace(strings.TrimPrefix(line, "fixed:"))
		default:
			continue
		}
		for _, f := range strings.Fields(line) {
			if strings.HasPrefix(f, "property=") {
				k.Property = strings.TrimPrefix(f, "property=")
			} else if strings.HasPrefix(f, "obligation=") {
				k.Obligation = strings.TrimPrefix(f, "obligation=")
			}
		}
		k.Rest = line
		out = append(out, k)
	}
	return out
}

type evObl struct {
	Name    string   `json:"name"`
	Kind    string   `json:"kind"`
	Props   []string `json:"props"`
	Pos     string   `json:"pos"`
	Goal    string   `json:"goal"`
	Verdict string   `json:"verdict"`
	Backend string   `json:"backend"`
	Queries int      `json:"queries"`
	Secs    float64  `json:"solver_s"`
}

func propsContain(ps []string, p string) bool {
	for _, x := range ps {
		if x == p {
			return true
		}
	}
	return false
}

func (e *Engine) Report(rep *Report, props []string, verif string, opts runOpts, evidencePath, knownPath, replayDir string) int {
	groups := groupObligations(rep.Obligations)
	sort.SliceStable(groups, func(i, j int) bool { return groups[i].Name < groups[j].Name })
	known := loadKnown(knownPath)
	exit := 0
	for _, er := range rep.Errors {
		fmt.Printf("TOOL-ERROR %s\n", er)
		exit = 2
	}
	prop := ""
	if len(props) == 1 {
		prop = props[0]
	}
	nd := 0
	var evs []evObl
	var violations, knownPrinted, undecided []string
	isKnown := func(g *groupedObl) *knownFinding {
		for i := range known {
			k := &known[i]
			if k.Kind == "finding" && k.Obligation == g.Name && (prop == "" || k.Property == prop) {
				return k
			}
		}
		return nil
	}
	for _, g := range groups {
		if prop != "" && !propsContain(g.Props, prop) {
			continue
		}
		ev := evObl{Name: g.Name, Kind: g.Kind, Props: g.Props, Pos: g.Pos, Goal: g.Goal, Verdict: g.Verdict, Backend: g.Solver, Queries: g.Queries, Secs: g.Secs}
		switch g.Verdict {
		case "discharged":
			nd++
		case "error":
			fmt.Printf("TOOL-ERROR solver error/disagreement on %s\n", g.Name)
			if g.Failing != nil {
				fmt.Printf("  %s\n", truncate(g.Failing.Result.Output, 300))
			}
			exit = 2
		default: // failed, undecided
			if k := isKnown(g); k != nil {
				fmt.Printf("KNOWN-FINDING: %s\n", k.Rest)
				knownPrinted = append(knownPrinted, g.Name)
				ev.Verdict = "known-finding"
				break
			}
			p := prop
			if p == "" && len(g.Props) > 0 {
				p = g.Props[0]
			}
			rp := e.writeReplay(replayDir, p, g)
			suffix := " no-failing-input-found"
			if g.Verdict == "undecided" {
				undecided = append(undecided, g.Name)
			}
			fmt.Printf("%-9s %s at %s: %s\n", strings.ToUpper(g.Verdict), g.Name, g.Pos, g.Goal)
			fmt.Printf("VIOLATION property=%s replay=%s obligation=%s%s\n", p, rp, g.Name, suffix)
			violations = append(violations, g.Name)
		}
		evs = append(evs, ev)
	}
	total := len(evs)
	fmt.Printf("property=%s obligations=%d discharged=%d known-findings=%d violations=%d queries=%d load=%.1fs solver=%.1fs wall=%.1fs\n",
		strings.Join(props, ","), total, nd, len(knownPrinted), len(violations), len(rep.Obligations), rep.LoadSecs, rep.SolverSecs, rep.WallSecs)
	if total == 0 && exit == 0 {
		fmt.Printf("TOOL-ERROR no obligations generated for %s (vacuous run)\n", strings.Join(props, ","))
		exit = 2
	}
	if len(violations) > 0 && exit == 0 {
		exit = 1
	}
	if evidencePath != "" && prop != "" {
		e.writeEvidence(evidencePath, prop, rep, evs, nd, knownPrinted, violations, undecided, opts)
	}
	return exit
}

func (e *Engine) writeReplay(dir, prop string, g *groupedObl) string {
	if dir == "" {
		dir = filepath.Join(os.TempDir(), "govc-replay")
	}
	os.MkdirAll(dir, 0o755)
	path := filepath.Join(dir, mangle(g.Name)+".txt")
	var b strings.Builder
	fmt.Fprintf(&b, "property: %s\nobligation: %s\nkind: %s\nposition: %s\ncontract: %s\ngoal: %s\nverdict: %s\n", prop, g.Name, g.Kind, g.Pos, g.Where, g.Goal, g.Verdict)
	if g.Failing != nil {
		o := g.Failing
		fmt.Fprintf(&b, "solver: %s (%.2fs)\n", o.Result.Solver, o.Result.Secs)
		for _, r := range o.All {
			fmt.Fprintf(&b, "  %s -> %s (%.2fs)\n", r.Solver, r.Verdict, r.Secs)
		}
		if o.Query != "" {
			pre := e.Prelude()
			q := pre + o.Query
			if o.Candidate {
				q = e.PreludeQF() + stripQuantified(o.Query)
			}
			if o.Result.Verdict == "sat" {
				m := getModel(q, 10000)
				fmt.Fprintf(&b, "\n--- solver model (candidate counterexample) ---\n%s\n", interestingModel(m))
			}
			fmt.Fprintf(&b, "\n--- SMT query ---\n%s\n", q)
		}
	}
	os.WriteFile(path, []byte(b.String()), 0o644)
	return path
}

// interestingModel keeps the entry parameters and initial heap of a model.
func interestingModel(m string) string {
	lines := strings.Split(m, "\n")
	var out []string
	keep := false
	for _, l := range lines {
		t := strings.TrimSpace(l)
		if strings.HasPrefix(t, "(define-fun ") {
			keep = strings.Contains(t, "p_") || strings.Contains(t, "fv_") || strings.Contains(t, "H0_") || strings.Contains(t, "r_") || strings.Contains(t, "hc!")
		}
		if keep {
			out = append(out, l)
		}
		if len(out) > 400 {
			out = append(out, "...")
			break
		}
	}
	return strings.Join(out, "\n")
}

func (e *Engine) writeEvidence(path, prop string, rep *Report, evs []evObl, nd int, knownPrinted, violations, undecided []string, opts runOpts) {
	funcs := map[string]bool{}
	abstr := map[string]bool{}
	trusted := map[string]bool{}
	inlined := map[string]bool{}
	paths := 0
	for _, u := range rep.Units {
		if !propsContain(u.contract.Props, prop) {
			continue
		}
		funcs[u.name] = true
		paths += u.paths
		for k := range u.abstr {
			abstr[k] = true
		}
		for k := range u.trusted {
			trusted[k] = true
		}
		for k := range u.inlined {
			inlined[stripMod(k)] = true
		}
	}
	var samples []any
	for i, ev := range evs {
		if i%max(1, len(evs)/8) == 0 && len(samples) < 10 {
			samples = append(samples, map[string]any{"obligation": ev.Name, "at": ev.Pos, "goal": ev.Goal, "verdict": ev.Verdict, "backend": ev.Backend})
		}
	}
	backends := map[string]int{}
	var solverS float64
	for _, ev := range evs {
		backends[ev.Backend]++
		solverS += ev.Secs
	}
	tb := []string{
		"T1 golang.org/x/tools/go/ssa v0.29.0 translates the Go sources faithfully (SSA built from /repo's working tree on this run)",
		"T2 govc (VC generator in /verif/tool) is sound: memory model, string axioms, channel discipline",
		"T3 SMT solvers: z3 5.1.0, z3 4.8.12, cvc5 1.0.3 (unsat answers trusted; disagreement aborts)",
		"T4 int modelled as mathematical integer; overflow not checked",
	}
	for _, k := range sortedKeys(trusted) {
		tb = append(tb, "assumed contract: "+stripMod(k))
	}
	assumptions := append([]string{}, tb...)
	for _, k := range sortedKeys(abstr) {
		assumptions = append(assumptions, "abstraction: "+k)
	}
	cov := map[string]any{
		"obligations":              len(evs) - len(knownPrinted),
		"discharged":               nd,
		"obligations_generated":    len(evs),
		"known_findings":           knownPrinted,
		"violations":               violations,
		"undecided":                undecided,
		"checker_cmd":              fmt.Sprintf("bin/govc verify --props %s --tier %s (z3-new -in / z3 -in / cvc5 per obligation, %d ms cap, mode %s)", prop, opts.tier, opts.timeoutMs, opts.mode),
		"trusted_base":             tb,
		"samples":                  samples,
		"functions_under_contract": sortedKeys(funcs),
		"functions_inlined":        sortedKeys(inlined),
		"paths_explored":           paths,
		"smt_queries":              len(rep.Obligations),
		"backends":                 backends,
		"solver_s":                 solverS,
		"abstractions":             sortedKeys(abstr),
		"per_obligation":           evs,
		"explanation":              "every obligation is one named verification condition generated from go/ssa of the current /repo tree and decided by an SMT solver; 'discharged' counts obligations answered unsat (known findings are listed separately and are NOT proofs)",
	}
	if len(knownPrinted) > 0 {
		cov["known_findings_note"] = "obligations listed under known_findings FAIL on the real code (genuine defects recorded in /verif/KNOWN_FINDINGS); they are excluded from 'obligations' and are not proofs"
	}
	ev := map[string]any{
		"property_id": prop,
		"tier":        opts.tier,
		"seed":        opts.seed,
		"level":       "proof",
		"coverage":    cov,
		"assumptions": assumptions,
		"wall_s":      rep.WallSecs,
		"violations":  len(violations),
	}
	b, _ := json.MarshalIndent(ev, "", " ")
	os.MkdirAll(filepath.Dir(path), 0o755)
	os.WriteFile(path, append(b, '\n'), 0o644)
}
