package main

import (
	"fmt"
	"regexp"
	"strconv"
	"go/constant"
	"go/token"
	"go/types"
	"sort"
	"strings"

	"golang.org/x/tools/go/ssa"
)

// ---------------------------------------------------------------------------
// obligations

type Obligation struct {
	Name   string   // <func>/<kind>[.<label>]
	Kind   string
	Func   string
	Props  []string
	Pos    string
	Where  string // contract location, if any
	Goal   string // human readable
	Query  string // path part of the SMT query (prelude added at solve time)
	PathID int
	Canary bool // must be refuted (sat)
	Cover  bool // reachability check: must be sat
	Candidate bool // the sat answer comes from the quantifier-free core only

	Result  SolverResult
	All     []SolverResult
	Verdict string // discharged | failed | undecided | error
}

type pcNode struct {
	line   string
	parent *pcNode
	n      int
}

type deferred struct {
	call *ssa.Defer
	fnv  Val
	args []Val
}

type loopState struct {
	variant  Term
	hasVar   bool
	arrivals int // unrolled loops: how often the head has been reached on this path
	atHead   map[string]Val // values of athead(e) expressions of step clauses, taken at the loop head
}

type Frame struct {
	fn       *ssa.Function
	contract *FuncContract
	regs     map[ssa.Value]Val
	locals   map[*ssa.Alloc][]Term
	block    *ssa.BasicBlock
	prev     *ssa.BasicBlock
	idx      int
	defers   []deferred
	retInstr ssa.Instruction // call instruction in the caller frame awaiting our result
	loops    map[*ssa.BasicBlock]*loopState
	curLoop  *loopState // the loop whose head was reached last on this path
	params   []Val
	bind     []Val
	retVals  []Val
	inDefers bool
	rdIdx    int // index of the RunDefers instruction we are executing
	deferRet bool // this frame is a deferred call: discard result, resume defers of parent
	stopAt   map[*ssa.BasicBlock]bool // discovery: loop body
	entry    *State // snapshot for old() (top frame only)
}

type writeSet struct {
	locals map[*ssa.Alloc]bool
	comps  map[string][]Term // nil entry with key present and "*" marker => whole
	whole  map[string]bool
	depth  int // frame depth of the loop's frame
	threshold int
	iters  map[*ssa.Range]bool
}

type State struct {
	frames   []*Frame
	heap     map[string]Term
	alloc    Term
	pc       *pcNode
	discover *writeSet
	pathID   int
	dead     bool
	ghostSeq int
	expectChans []Term
	qfacts   []qfact
	iters    map[*ssa.Range]Term // position of string range iterators
	info     map[string]Val // Go-side knowledge (closure identity, dynamic type, ...) of values stored in cells
	ixterms  []Term         // index terms the quantified facts have been instantiated at (pairs for two-variable facts)
}

// qfact: a universally quantified assumption kept for explicit instantiation at
// slice index operations (triggers with arithmetic do not e-match reliably).
type qfact struct {
	ante    Term
	bv      string
	bv2     string // second bound variable of a nested forall ("" for one-variable facts)
	impl    Term
	derived []Term // index terms of the body that are functions of bv (e.g. (div bv 2)): instances are added there too
}

type Unit struct {
	eng      *Engine
	fn       *ssa.Function
	contract *FuncContract
	name     string
	obls     []*Obligation
	oblIndex map[string]int
	abstr    map[string]bool
	trusted  map[string]bool
	inlined  map[string]bool
	qSide     *[]Term // when set, closed-heap facts about reads that mention a bound variable are recorded here
	goalEval  bool    // a goal is being evaluated: outermost existentials get witness hints
	qNest     int     // nesting depth of quantifiers while a specification is evaluated
	ixCollect *[]Term // when set, slice index terms met while evaluating a specification are recorded here
	freshN   int
	paths    int
	work     []*State
	maxPaths int
	entryHeapNames map[string]Term
	A0       Term
	errs     []string
	topEntry *State
	topParams []Val
	blockCover map[int]int
	preciseNote bool
	evalDepth int
	sideFacts []Term
	qfPrelude string
	pruned, pruneCalls int
}

func (e *Engine) NewUnit(fn *ssa.Function, c *FuncContract) *Unit {
	return &Unit{eng: e, fn: fn, contract: c, name: relName(fn), oblIndex: map[string]int{}, abstr: map[string]bool{},
		trusted: map[string]bool{}, inlined: map[string]bool{}, maxPaths: 60000, entryHeapNames: map[string]Term{}}
}

func (st *State) top() *Frame { return st.frames[len(st.frames)-1] }

func (st *State) add(line string) {
	n := 1
	if st.pc != nil {
		n = st.pc.n + 1
	}
	st.pc = &pcNode{line: line, parent: st.pc, n: n}
}

func (st *State) assume(t Term) {
	if t == "true" {
		return
	}
	if t == "false" {
		st.dead = true
	}
	st.add("(assert " + t + ")")
}

func (st *State) pathText() string {
	var lines []string
	for n := st.pc; n != nil; n = n.parent {
		lines = append(lines, n.line)
	}
	var b strings.Builder
	// identical assertions (the same instance of a quantified fact added at several program
	// points) are emitted once
	seen := make(map[string]bool, len(lines))
	for i := len(lines) - 1; i >= 0; i-- {
		if strings.HasPrefix(lines[i], "(assert ") {
			if seen[lines[i]] {
				continue
			}
			seen[lines[i]] = true
		}
		b.WriteString(lines[i])
		b.WriteByte('\n')
	}
	return b.String()
}

func (st *State) clone() *State {
	ns := &State{alloc: st.alloc, pc: st.pc, discover: st.discover, pathID: st.pathID, ghostSeq: st.ghostSeq, expectChans: st.expectChans, qfacts: st.qfacts, iters: st.iters, ixterms: st.ixterms}
	ns.heap = make(map[string]Term, len(st.heap))
	for k, v := range st.heap {
		ns.heap[k] = v
	}
	if len(st.info) > 0 {
		ns.info = make(map[string]Val, len(st.info))
		for k, v := range st.info {
			ns.info[k] = v
		}
	}
	ns.frames = make([]*Frame, len(st.frames))
	for i, f := range st.frames {
		nf := *f
		nf.regs = make(map[ssa.Value]Val, len(f.regs))
		for k, v := range f.regs {
			nf.regs[k] = v
		}
		nf.locals = make(map[*ssa.Alloc][]Term, len(f.locals))
		for k, v := range f.locals {
			nf.locals[k] = v
		}
		nf.loops = make(map[*ssa.BasicBlock]*loopState, len(f.loops))
		for k, v := range f.loops {
			nf.loops[k] = v
		}
		nf.defers = append([]deferred(nil), f.defers...)
		ns.frames[i] = &nf
	}
	return ns
}

func (u *Unit) fresh(st *State, prefix, sort string) Term {
	u.freshN++
	name := fmt.Sprintf("%s!%d", mangle(prefix), u.freshN)
	st.add(fmt.Sprintf("(declare-const %s %s)", name, sort))
	return name
}

func (u *Unit) define(st *State, prefix, sort string, t Term) Term {
	// avoid naming atoms
	if !strings.ContainsAny(t, "( ") {
		return t
	}
	n := u.fresh(st, prefix, sort)
	st.add(fmt.Sprintf("(assert (= %s %s))", n, t))
	return n
}

func (u *Unit) abstraction(msg string) {
	u.abstr[msg] = true
}

// ---------------------------------------------------------------------------
// obligations

func (u *Unit) oblige(st *State, kind, label string, goal Term, pos token.Pos, human string, props []string, where string) {
	if st.discover != nil || st.dead {
		return
	}
	if goal == "true" {
		// trivially discharged; still count it so that obligation sets are stable
		u.recordObl(st, kind, label, goal, pos, human, props, where, true)
		return
	}
	u.recordObl(st, kind, label, goal, pos, human, props, where, false)
	// after checking, the goal may be assumed on the rest of this path
	st.assume(goal)
}

func (u *Unit) recordObl(st *State, kind, label string, goal Term, pos token.Pos, human string, props []string, where string, trivial bool) {
	name := u.name + "/" + kind
	if label != "" {
		name += "." + label
	}
	if props == nil {
		props = u.contract.Props
		switch kind {
		case "nil", "index", "slice", "assert-type", "div0", "panic-unreachable", "makeslice":
			// safety obligations belong to the no-crash properties when the function serves one
			var sp []string
			for _, p := range props {
				if p == "C13" || p == "C12" {
					sp = append(sp, p)
				}
			}
			if len(sp) > 0 {
				props = sp
			}
		}
	}
	o := &Obligation{Name: name, Kind: kind, Func: u.name, Props: props, Pos: u.eng.posStr(pos), Where: where, Goal: human, PathID: st.pathID}
	if trivial {
		o.Query = ""
		o.Verdict = "discharged"
		o.Result = SolverResult{Verdict: "unsat", Solver: "syntactic"}
	} else {
		o.Query = st.pathText() + "(assert (not " + goal + "))\n(check-sat)\n"
	}
	u.obls = append(u.obls, o)
}

// ---------------------------------------------------------------------------
// heap components

func stripMod(s string) string {
	return strings.ReplaceAll(s, repoMod+"/", "")
}

func (u *Unit) compName(kind string, root types.Type, suffix string) string {
	return kind + "_" + mangle(stripMod(typeKey(root))) + mangle(suffix)
}

func (u *Unit) compSort(kind, sort string) string {
	switch kind {
	case "F", "P":
		return "(Array Int " + sort + ")"
	case "E":
		return "(Array Int (Array Int " + sort + "))"
	}
	return sort
}

func (u *Unit) heapGet(st *State, comp, arrSort string) Term {
	if t, ok := st.heap[comp]; ok {
		return t
	}
	name := "H0_" + comp
	u.eng.gdecl(name, fmt.Sprintf("(declare-const %s %s)", name, arrSort))
	st.heap[comp] = name
	return name
}

func (u *Unit) heapSet(st *State, comp, arrSort string, t Term) {
	u.freshN++
	name := fmt.Sprintf("H%d_%s", u.freshN, comp)
	st.add(fmt.Sprintf("(declare-const %s %s)", name, arrSort))
	st.add(fmt.Sprintf("(assert (= %s %s))", name, t))
	st.heap[comp] = name
	if st.discover != nil && !u.preciseNote {
		// a write that is not recorded precisely by its caller: the whole component is in the loop's write set
		st.discover.noteWhole(comp, arrSort)
	}
}

// heapSetAt: a write whose only affected address is ref (recorded precisely for loop write sets).
func (u *Unit) heapSetAt(st *State, comp, arrSort string, t Term, ref Term) {
	u.preciseNote = true
	u.heapSet(st, comp, arrSort, t)
	u.preciseNote = false
	if st.discover != nil {
		st.discover.noteHeap(comp, arrSort, ref)
	}
}

func (u *Unit) heapHavoc(st *State, comp, arrSort string) {
	u.freshN++
	name := fmt.Sprintf("H%d_%s", u.freshN, comp)
	st.add(fmt.Sprintf("(declare-const %s %s)", name, arrSort))
	st.heap[comp] = name
}

type loc struct {
	comp    string
	arrSort string
	sort    string
	kind    string
	ref     Term
	idx     Term
	leaf    Leaf
}

// locsOf returns the heap locations denoted by pointer p (non-local) for the
// leaves of the pointee type.
func (u *Unit) locsOf(p *Ptr) ([]loc, types.Type) {
	e := u.eng
	_, _, target, suffix := e.pathRange(p.Root, p.Path)
	kind := "F"
	switch p.Kind {
	case PElem:
		kind = "E"
	case PObj:
		if _, ok := p.Root.Underlying().(*types.Struct); !ok || !flattenableStruct(p.Root) {
			kind = "P"
		}
	}
	var out []loc
	for _, l := range e.leavesOf(target) {
		comp := u.compName(kind, p.Root, suffix+l.Suffix)
		out = append(out, loc{comp: comp, arrSort: u.compSort(kind, l.Sort), sort: l.Sort, kind: kind, ref: p.Ref, idx: p.Idx, leaf: l})
	}
	return out, target
}

// leafIsRef: does the leaf hold a reference (pointer, map, chan, slice base)?
func leafIsRef(lf Leaf) bool {
	if lf.Role == "slice.b" {
		return true
	}
	if lf.Role == "" && lf.T != nil {
		switch lf.T.Underlying().(type) {
		case *types.Pointer, *types.Map, *types.Chan:
			return true
		}
	}
	return false
}

func (u *Unit) readLoc(st *State, l loc) Term {
	h := u.heapGet(st, l.comp, l.arrSort)
	var t Term
	if l.kind == "E" {
		t = fmt.Sprintf("(select (select %s %s) %s)", h, l.ref, l.idx)
	} else {
		t = fmt.Sprintf("(select %s %s)", h, l.ref)
	}
	if u.evalDepth > 0 && leafIsRef(l.leaf) && u.qSide != nil && strings.Contains(t, "qi_") && !strings.Contains(t, "q_") {
		// inside the body of a harvested forall: the fact becomes part of the template
		*u.qSide = append(*u.qSide, fmt.Sprintf("(and (<= 0 %s) (<= %s %s))", t, t, st.alloc))
	}
	if u.evalDepth > 0 && leafIsRef(l.leaf) && !strings.Contains(t, "q_") && !strings.Contains(t, "qi_") {
		// the heap is closed under allocation: a reference read from it (in whatever state the
		// read is evaluated) was allocated in that state. Collected while a spec expression is
		// evaluated and assumed on the path afterwards (explicit instance, no quantifier).
		u.sideFacts = append(u.sideFacts, fmt.Sprintf("(and (<= 0 %s) (<= %s %s))", t, t, st.alloc))
	}
	return t
}

func (u *Unit) writeLoc(st *State, l loc, v Term) {
	h := u.heapGet(st, l.comp, l.arrSort)
	var nt Term
	if l.kind == "E" {
		nt = fmt.Sprintf("(store %s %s (store (select %s %s) %s %s))", h, l.ref, h, l.ref, l.idx, v)
	} else {
		nt = fmt.Sprintf("(store %s %s %s)", h, l.ref, v)
	}
	u.preciseNote = true
	u.heapSet(st, l.comp, l.arrSort, nt)
	u.preciseNote = false
	if st.discover != nil {
		st.discover.noteHeap(l.comp, l.arrSort, l.ref)
	}
}

var freshRefRe = regexp.MustCompile(`^(new|mk|map|chan)!(\d+)$`)

func (w *writeSet) noteHeap(comp, arrSort string, ref Term) {
	if w.whole[comp+"|"+arrSort] {
		return
	}
	if m := freshRefRe.FindStringSubmatch(ref); m != nil {
		if n, _ := strconv.Atoi(m[2]); n > w.threshold {
			return // allocated inside the loop body: does not exist at the loop head
		}
	}
	k := comp + "|" + arrSort
	w.comps[k] = append(w.comps[k], ref)
}

func (w *writeSet) noteWhole(comp, arrSort string) {
	w.whole[comp+"|"+arrSort] = true
}

// ---------------------------------------------------------------------------
// values

func (u *Unit) zeroVal(t types.Type) Val {
	ls := u.eng.leavesOf(t)
	ts := make([]Term, len(ls))
	for i, l := range ls {
		ts[i] = zeroTerm(l.Sort)
	}
	return Val{T: t, Terms: ts}
}

func (u *Unit) freshVal(st *State, prefix string, t types.Type) Val {
	if tup, ok := t.(*types.Tuple); ok {
		v := Val{T: t}
		for i := 0; i < tup.Len(); i++ {
			x := u.freshVal(st, fmt.Sprintf("%s_%d", prefix, i), tup.At(i).Type())
			v.Tuple = append(v.Tuple, x)
			v.Terms = append(v.Terms, x.Terms...)
		}
		return v
	}
	ls := u.eng.leavesOf(t)
	ts := make([]Term, len(ls))
	for i, l := range ls {
		ts[i] = u.fresh(st, prefix+l.Suffix, l.Sort)
	}
	v := Val{T: t, Terms: ts}
	u.assumeTyping(st, v)
	return v
}

// assumeTyping adds the type invariants of a value read from an unknown source.
func (u *Unit) assumeTyping(st *State, v Val) {
	ls := u.eng.leavesOf(v.T)
	if len(ls) != len(v.Terms) {
		return
	}
	for i, l := range ls {
		t := v.Terms[i]
		switch l.Role {
		case "slice.b":
			b, o, ln, c := v.Terms[i], v.Terms[i+1], v.Terms[i+2], v.Terms[i+3]
			st.assume(fmt.Sprintf("(and (<= 0 %s) (<= %s %s) (<= 0 %s) (<= 0 %s) (<= %s %s) (<= %s 1099511627776) (=> (= %s 0) (= %s 0)))", b, b, st.alloc, o, ln, ln, c, c, b, c))
		case "iface.t":
			st.assume(fmt.Sprintf("(and (<= 0 %s) (=> (= %s 0) (= %s 0)))", t, t, v.Terms[i+1]))
			if impls := u.eng.sealedImpls(l.T); impls != nil {
				alts := []Term{sEq(t, "0")}
				for _, it := range impls {
					alts = append(alts, sEq(t, sInt(int64(u.eng.typeTag(it)))))
				}
				st.assume(sOr(alts...))
			}
		case "":
			if l.T == nil {
				continue
			}
			switch ut := l.T.Underlying().(type) {
			case *types.Pointer, *types.Map, *types.Chan:
				st.assume(fmt.Sprintf("(and (<= 0 %s) (<= %s %s) (=> (not (= %s 0)) (= (reftype %s) %d)))", t, t, st.alloc, t, t, u.refTag(l.T)))
			case *types.Signature:
				st.assume(fmt.Sprintf("(<= 0 %s)", t))
			case *types.Basic:
				if ut.Info()&types.IsInteger != 0 {
					if lo, hi, ok := intRange(ut); ok {
						st.assume(fmt.Sprintf("(and (<= %s %s) (<= %s %s))", lo, t, t, hi))
					}
				}
			}
		}
	}
}

func intRange(b *types.Basic) (string, string, bool) {
	switch b.Kind() {
	case types.Int8:
		return "(- 128)", "127", true
	case types.Int16:
		return "(- 32768)", "32767", true
	case types.Int32:
		return "(- 2147483648)", "2147483647", true
	case types.Uint8:
		return "0", "255", true
	case types.Uint16:
		return "0", "65535", true
	case types.Uint32:
		return "0", "4294967295", true
	case types.Uint, types.Uint64, types.Uintptr:
		return "0", "18446744073709551615", true
	case types.Int, types.Int64:
		return "(- 9223372036854775808)", "9223372036854775807", true
	}
	return "", "", false
}

func (u *Unit) constVal(c *ssa.Const) Val {
	t := c.Type()
	if c.Value == nil {
		return u.zeroVal(t)
	}
	switch c.Value.Kind() {
	case constant.Bool:
		if constant.BoolVal(c.Value) {
			return Val{T: t, Terms: []Term{"true"}}
		}
		return Val{T: t, Terms: []Term{"false"}}
	case constant.Int:
		if b, ok := t.Underlying().(*types.Basic); ok && b.Info()&types.IsFloat != 0 {
			return Val{T: t, Terms: []Term{c.Value.ExactString() + ".0"}}
		}
		s := c.Value.ExactString()
		if strings.HasPrefix(s, "-") {
			s = "(- " + s[1:] + ")"
		}
		return Val{T: t, Terms: []Term{s}}
	case constant.String:
		return Val{T: t, Terms: []Term{u.eng.strLit(constant.StringVal(c.Value))}}
	case constant.Float:
		f, _ := constant.Float64Val(c.Value)
		return Val{T: t, Terms: []Term{fmt.Sprintf("%f", f)}}
	}
	return u.zeroVal(t)
}

// val returns the value of an SSA operand in the top frame.
func (u *Unit) val(st *State, v ssa.Value) Val {
	fr := st.top()
	switch x := v.(type) {
	case *ssa.Const:
		return u.constVal(x)
	case *ssa.Global:
		root := derefType(x.Type())
		return Val{T: x.Type(), Terms: []Term{u.eng.globalTerm(x)}, Ptr: &Ptr{Kind: PObj, Ref: u.eng.globalTerm(x), Root: root}}
	case *ssa.Function:
		return Val{T: x.Type(), Terms: []Term{sInt(int64(u.fnID(x)))}, Fn: &FnVal{Fn: x}}
	case *ssa.Builtin:
		return Val{T: x.Type()}
	case *ssa.FreeVar:
		for i, fv := range fr.fn.FreeVars {
			if fv == x && i < len(fr.bind) {
				return fr.bind[i]
			}
		}
	}
	if r, ok := fr.regs[v]; ok {
		return r
	}
	// unknown register (e.g. unsupported instruction): havoc
	nv := u.freshVal(st, "undef_"+v.Name(), v.Type())
	fr.regs[v] = nv
	u.abstraction(fmt.Sprintf("%s: value %s of unsupported origin havocked", u.name, v.Name()))
	return nv
}

func (u *Unit) fnID(fn *ssa.Function) int {
	if n, ok := u.eng.fnIDs[fn]; ok {
		return n
	}
	n := len(u.eng.fnIDs) + 1
	u.eng.fnIDs[fn] = n
	return n
}

// ptrOf recovers the pointer structure of a pointer-typed value.
func (u *Unit) ptrOf(v Val) *Ptr {
	if v.Ptr != nil {
		return v.Ptr
	}
	root := derefType(v.T)
	if root == nil {
		return nil
	}
	return &Ptr{Kind: PObj, Ref: v.Terms[0], Root: root}
}

// ptrTerm encodes a pointer as a single Int term if possible.
func (u *Unit) ptrVal(st *State, t types.Type, p *Ptr) Val {
	if p.Kind == PObj && len(p.Path) == 0 {
		return Val{T: t, Terms: []Term{p.Ref}, Ptr: p}
	}
	// interior pointer: encodable only Go-side. Give it an opaque positive identity.
	return Val{T: t, Terms: []Term{"?interior"}, Ptr: p}
}

func (u *Unit) materialize(st *State, v Val) Val {
	// make sure no "?interior" placeholder leaks into SMT
	for i, t := range v.Terms {
		if t == "?interior" {
			// snapshot alias: a fresh object holding the current value of the interior location.
			// A call that completes within the instruction copies the object back afterwards
			// (execCall); an alias that lives longer is not kept in sync (recorded abstraction)
			if v.Ptr != nil && v.T != nil && derefType(v.T) != nil && len(v.Terms) == 1 {
				cur := u.load(st, Val{T: v.T, Terms: []Term{"?interior"}, Ptr: v.Ptr}, token.NoPos)
				n := u.newRef(st, "iptr")
				st.assume(fmt.Sprintf("(= (reftype %s) %d)", n, u.refTag(v.T)))
				nv := v
				nv.Terms = append([]Term(nil), v.Terms...)
				nv.Terms[i] = n
				np := &Ptr{Kind: PObj, Ref: n, Root: derefType(v.T)}
				locs, _ := u.locsOf(np)
				if len(locs) == len(cur.Terms) {
					for k, l := range locs {
						h := u.heapGet(st, l.comp, l.arrSort)
						u.heapSetAt(st, l.comp, l.arrSort, fmt.Sprintf("(store %s %s %s)", h, n, cur.Terms[k]), n)
					}
				}
				nv.Ptr = np
				u.abstraction(fmt.Sprintf("%s: interior pointer escaped; modelled as a snapshot alias", u.name))
				return nv
			}
			n := u.fresh(st, "iptr", "Int")
			st.assume(fmt.Sprintf("(and (< 0 %s) (<= %s %s))", n, n, st.alloc))
			nv := v
			nv.Terms = append([]Term(nil), v.Terms...)
			nv.Terms[i] = n
			{
				u.abstraction(fmt.Sprintf("%s: interior pointer escaped; the escaped alias is not tracked", u.name))
			}
			return nv
		}
	}
	return v
}

func (u *Unit) load(st *State, pv Val, pos token.Pos) Val {
	p := u.ptrOf(pv)
	e := u.eng
	if p == nil {
		return u.freshVal(st, "load", derefType(pv.T))
	}
	lo, hi, target, _ := e.pathRange(p.Root, p.Path)
	switch p.Kind {
	case PLocal:
		cells := st.top().locals[p.Alloc]
		if cells == nil {
			// alloc belongs to an outer frame (cannot happen for non-escaping allocs)
			for i := len(st.frames) - 1; i >= 0; i-- {
				if c, ok := st.frames[i].locals[p.Alloc]; ok {
					cells = c
					break
				}
			}
		}
		lv := Val{T: target, Terms: append([]Term(nil), cells[lo:hi]...)}
		if len(p.Path) == 0 {
			if iv, ok := st.info[fmt.Sprintf("L%p", p.Alloc)]; ok && sameTerms(iv.Terms, lv.Terms) {
				iv.T = target
				return iv
			}
		}
		return lv
	default:
		locs, _ := u.locsOf(p)
		ts := make([]Term, len(locs))
		for i, l := range locs {
			ts[i] = u.define(st, "ld", l.sort, u.readLoc(st, l))
		}
		v := Val{T: target, Terms: ts}
		if len(locs) > 0 {
			if iv, ok := st.info["H"+p.Ref+"|"+p.Idx+"|"+locs[0].comp+"|"+st.heap[locs[0].comp]]; ok && len(iv.Terms) == len(ts) {
				iv.T = target
				iv.Terms = ts
				v = iv
			}
		}
		if len(p.Path) == 0 && p.Kind == PObj {
			for g, n := range u.eng.globalRef {
				if sInt(int64(-n)) == p.Ref {
					v.Global = g
					for _, gi := range u.eng.cs.GlobalInvs {
						if gi.Type == g.Pkg.Pkg.Name()+"."+g.Name() {
							if t, err := u.evalBool(st, &SpecEnv{vars: map[string]Val{"val": v}, pkg: g.Pkg.Pkg}, gi.Expr); err == nil {
								st.assume(t)
								u.trusted["globalinv "+gi.Type] = true
							}
						}
					}
				}
			}
		}
		u.assumeTyping(st, v)
		if fi := u.fieldInvFor(p); fi != nil {
			if t, err := u.evalBool(st, &SpecEnv{vars: map[string]Val{"val": v}, pkg: u.pkgOf(u.fn)}, fi.Expr); err == nil {
				st.assume(t)
			}
		}
		if ti := u.typeInvFor(target); ti != nil {
			if t, err := u.evalBool(st, &SpecEnv{vars: map[string]Val{"val": v}, pkg: u.eng.pkgByPath(ti.Pkg)}, ti.Expr); err == nil {
				st.assume(t)
			}
		}
		return v
	}
}

func (u *Unit) typeInvFor(t types.Type) *FieldInv {
	if len(u.eng.cs.TypeInvs) == 0 || t == nil {
		return nil
	}
	if _, ok := t.(*types.Named); !ok {
		return nil
	}
	k := shortTypeKey(t)
	for _, ti := range u.eng.cs.TypeInvs {
		if ti.Type == k {
			return ti
		}
	}
	return nil
}

func (u *Unit) fieldInvFor(p *Ptr) *FieldInv {
	if len(u.eng.cs.FieldInvs) == 0 || p.Kind != PObj || len(p.Path) != 1 {
		return nil
	}
	stt, ok := p.Root.Underlying().(*types.Struct)
	if !ok {
		return nil
	}
	k := shortTypeKey(p.Root)
	fname := stt.Field(p.Path[0]).Name()
	for _, fi := range u.eng.cs.FieldInvs {
		if fi.Type == k && fi.Field == fname {
			return fi
		}
	}
	return nil
}

func (u *Unit) store(st *State, pv Val, v Val, pos token.Pos) {
	p := u.ptrOf(pv)
	e := u.eng
	if p == nil {
		return
	}
	v = u.materialize(st, v)
	lo, hi, _, _ := e.pathRange(p.Root, p.Path)
	switch p.Kind {
	case PLocal:
		var fr *Frame
		for i := len(st.frames) - 1; i >= 0; i-- {
			if _, ok := st.frames[i].locals[p.Alloc]; ok {
				fr = st.frames[i]
				break
			}
		}
		if fr == nil {
			return
		}
		cells := append([]Term(nil), fr.locals[p.Alloc]...)
		if hi-lo != len(v.Terms) {
			u.errs = append(u.errs, fmt.Sprintf("%s: store arity mismatch at %s", u.name, e.posStr(pos)))
			return
		}
		copy(cells[lo:hi], v.Terms)
		fr.locals[p.Alloc] = cells
		if len(p.Path) == 0 && (v.Fn != nil || v.Dyn != nil || v.Ptr != nil || v.Global != nil) {
			if st.info == nil {
				st.info = map[string]Val{}
			}
			st.info[fmt.Sprintf("L%p", p.Alloc)] = v
		}
		if st.discover != nil {
			st.discover.locals[p.Alloc] = true
		}
	default:
		locs, _ := u.locsOf(p)
		if len(locs) != len(v.Terms) {
			u.errs = append(u.errs, fmt.Sprintf("%s: heap store arity mismatch at %s (%d vs %d)", u.name, e.posStr(pos), len(locs), len(v.Terms)))
			return
		}
		u.frameCheck(st, locs, pos)
		if name := u.contract.Opts["no-direct-elem-writes"]; name != "" && p.Kind == PElem && len(st.frames) == 1 {
			// frame: the elements of the named local slice are written only by the closures that
			// own a slot (each under its own contract), never by this function directly
			fr0 := st.frames[0]
			env := &SpecEnv{vars: map[string]Val{}, fr: fr0, useLocals: true, fn: fr0.fn, pkg: u.pkgOf(fr0.fn)}
			if lv, err := u.eval(st, env, &Spec{Kind: SIdent, Name: name}); err == nil && len(lv.Terms) == 4 {
				u.oblige(st, "frame", "slot-owner", sNot(sEq(p.Ref, lv.Terms[0])), pos, "no direct write to an element of "+name+" (slots belong to the worker closures)", nil, u.contract.Where)
			}
		}
		if fi := u.fieldInvFor(p); fi != nil {
			t, err := u.evalBool(st, &SpecEnv{vars: map[string]Val{"val": v}, pkg: u.pkgOf(u.fn)}, fi.Expr)
			if err != nil {
				u.fail(fmt.Sprintf("%s: fieldinv: %v", fi.Where, err))
			} else {
				u.oblige(st, "field-inv", fi.Field, t, pos, "value stored to "+fi.Type+"."+fi.Field+" satisfies the field invariant "+fi.Expr.String(), nil, fi.Where)
			}
		}
		if ti := u.typeInvFor(v.T); ti != nil {
			t, err := u.evalBool(st, &SpecEnv{vars: map[string]Val{"val": v}, pkg: u.eng.pkgByPath(ti.Pkg)}, ti.Expr)
			if err != nil {
				u.fail(fmt.Sprintf("%s: typeinv: %v", ti.Where, err))
			} else {
				u.oblige(st, "type-inv", "", t, pos, "stored "+ti.Type+" value satisfies the type invariant "+ti.Expr.String(), nil, ti.Where)
			}
		}
		for i, l := range locs {
			u.writeLoc(st, l, v.Terms[i])
		}
		if p.Kind == PElem && len(p.Path) == 0 && numeral.MatchString(p.Idx) {
			// remember what is stored in (varargs) arrays element by element
			if st.info == nil {
				st.info = map[string]Val{}
			}
			st.info["A"+p.Ref+"|"+p.Idx] = v
		}
		if len(locs) > 0 && (v.Fn != nil || v.Dyn != nil || v.Global != nil) {
			if st.info == nil {
				st.info = map[string]Val{}
			}
			// valid while the first component keeps the version written here and no other leaf is overwritten
			st.info["H"+p.Ref+"|"+p.Idx+"|"+locs[0].comp+"|"+st.heap[locs[0].comp]] = v
		}
	}
}

func sameTerms(a, b []Term) bool {
	if len(a) != len(b) {
		return false
	}
	for i := range a {
		if a[i] != b[i] {
			return false
		}
	}
	return true
}

// ---------------------------------------------------------------------------
// running

func (u *Unit) fail(msg string) {
	// a contract clause that no longer fits the code it is written for (renamed or removed
	// local, field or callee) is a FAILED obligation, not a tool error: the property is no
	// longer proved for this code
	if strings.Contains(msg, "unknown identifier") || strings.Contains(msg, "cannot resolve") || strings.Contains(msg, "no field ") || strings.Contains(msg, "needs a local variable") || strings.Contains(msg, "no call of ") {
		for _, o := range u.obls {
			if o.Kind == "contract-mismatch" && o.Goal == msg {
				return
			}
		}
		var props []string
		if u.contract != nil {
			props = u.contract.allProps()
		}
		u.obls = append(u.obls, &Obligation{Name: u.name + "/contract-mismatch", Kind: "contract-mismatch", Func: u.name, Props: props,
			Goal: msg, Verdict: "failed", Result: SolverResult{Verdict: "sat", Solver: "contract evaluation", Output: msg}})
		return
	}
	u.errs = append(u.errs, msg)
}

func sortedKeys[V any](m map[string]V) []string {
	var ks []string
	for k := range m {
		ks = append(ks, k)
	}
	sort.Strings(ks)
	return ks
}

// refTag: type-based disjointness of references. Every non-nil reference carries the
// tag of its referent kind; references of different referent types are distinct.
func (u *Unit) refTag(t types.Type) int {
	var k string
	switch x := t.Underlying().(type) {
	case *types.Chan:
		k = "chan:" + typeKey(x.Elem())
	case *types.Pointer:
		k = "ptr:" + typeKey(x.Elem())
	case *types.Map:
		k = "map:" + typeKey(x.Key()) + ":" + typeKey(x.Elem())
	default:
		k = "other:" + typeKey(t)
	}
	if n, ok := u.eng.refTags[k]; ok {
		return n
	}
	n := len(u.eng.refTags) + 1
	u.eng.refTags[k] = n
	return n
}
