package main

import (
	"fmt"
	"go/types"
	"strings"

	"golang.org/x/tools/go/ssa"
)

// ---------------------------------------------------------------------------
// Values

type PtrKind int

const (
	PObj   PtrKind = iota // Ref is an object reference; Root is the pointee root type
	PLocal                // non-escaping alloc
	PElem                 // element Idx of backing store Ref
)

type Ptr struct {
	Kind  PtrKind
	Ref   Term
	Idx   Term
	Alloc *ssa.Alloc
	Root  types.Type // type of the root cell
	Path  []int
}

type FnVal struct {
	Fn   *ssa.Function
	Bind []Val
}

type Val struct {
	T     types.Type
	Terms []Term
	Ptr   *Ptr
	Fn    *FnVal
	Dyn   types.Type
	Inner *Val
	Tuple []Val
	Global *ssa.Global // provenance: the value was loaded whole from this global
	Elems  []Val       // for a slice made from a fresh varargs array: the values stored in it
}

type Leaf struct {
	Suffix string
	Sort   string
	T      types.Type // Go type of the leaf (for typing assumptions); nil for synthetic
	Role   string     // "", "slice.b", "slice.o", "slice.l", "slice.c", "iface.t", "iface.v"
}

func typeKey(t types.Type) string {
	return types.TypeString(t, func(p *types.Package) string { return p.Path() })
}

func shortTypeKey(t types.Type) string {
	return types.TypeString(t, func(p *types.Package) string { return p.Name() })
}

func isRepoPkg(p *types.Package) bool {
	return p != nil && strings.HasPrefix(p.Path(), "github.com/ory/keto")
}

// flattenable reports whether a struct type is modelled field-wise.
func flattenableStruct(t types.Type) bool {
	st, ok := t.Underlying().(*types.Struct)
	if !ok {
		return false
	}
	var pkg *types.Package
	if n, ok := types.Unalias(t).(*types.Named); ok {
		pkg = n.Obj().Pkg()
	}
	if pkg == nil || isRepoPkg(pkg) {
		return true
	}
	switch pkg.Path() {
	case "database/sql", "github.com/gobuffalo/pop/v6", "github.com/ory/x/pagination/keysetpagination", "github.com/ory/herodot":
		// fall through to field check
	}
	for i := 0; i < st.NumFields(); i++ {
		if !st.Field(i).Exported() {
			return false
		}
	}
	return true
}

type typeInfo struct {
	leaves []Leaf
}

func (e *Engine) leavesOf(t types.Type) []Leaf {
	key := typeKey(t)
	if ti, ok := e.tinfo[key]; ok {
		return ti.leaves
	}
	// guard against recursion through value types (impossible in Go) - put placeholder
	e.tinfo[key] = &typeInfo{}
	ls := e.computeLeaves(t)
	e.tinfo[key] = &typeInfo{leaves: ls}
	return ls
}

func (e *Engine) opaqueSort(t types.Type) string {
	name := "O_" + mangle(shortTypeKey(t))
	e.declareSort(name)
	return name
}

func (e *Engine) computeLeaves(t types.Type) []Leaf {
	switch u := t.Underlying().(type) {
	case *types.Basic:
		switch {
		case u.Info()&types.IsBoolean != 0:
			return []Leaf{{"", "Bool", t, ""}}
		case u.Info()&types.IsInteger != 0:
			return []Leaf{{"", "Int", t, ""}}
		case u.Info()&types.IsString != 0:
			return []Leaf{{"", "Str", t, ""}}
		case u.Info()&types.IsFloat != 0:
			return []Leaf{{"", "Real", t, ""}}
		case u.Kind() == types.UnsafePointer:
			return []Leaf{{"", "Int", t, ""}}
		case u.Kind() == types.UntypedNil:
			return []Leaf{{"", "Int", t, ""}}
		}
		return []Leaf{{"", e.opaqueSort(t), t, ""}}
	case *types.Pointer, *types.Map, *types.Chan, *types.Signature:
		return []Leaf{{"", "Int", t, ""}}
	case *types.Slice:
		return []Leaf{{"#b", "Int", nil, "slice.b"}, {"#o", "Int", nil, "slice.o"}, {"#l", "Int", nil, "slice.l"}, {"#c", "Int", nil, "slice.c"}}
	case *types.Interface:
		return []Leaf{{"#t", "Int", t, "iface.t"}, {"#v", "Int", nil, "iface.v"}}
	case *types.Struct:
		if !flattenableStruct(t) {
			return []Leaf{{"", e.opaqueSort(t), t, ""}}
		}
		var out []Leaf
		for i := 0; i < u.NumFields(); i++ {
			f := u.Field(i)
			for _, l := range e.leavesOf(f.Type()) {
				out = append(out, Leaf{"." + f.Name() + l.Suffix, l.Sort, l.T, l.Role})
			}
		}
		if len(out) == 0 {
			// empty struct: keep one dummy leaf so that values are never empty
			return []Leaf{{"", "Int", nil, "unit"}}
		}
		return out
	case *types.Array:
		return []Leaf{{"", e.opaqueSort(t), t, ""}}
	case *types.Tuple:
		var out []Leaf
		for i := 0; i < u.Len(); i++ {
			for _, l := range e.leavesOf(u.At(i).Type()) {
				out = append(out, Leaf{fmt.Sprintf("$%d%s", i, l.Suffix), l.Sort, l.T, l.Role})
			}
		}
		return out
	case *types.TypeParam:
		return []Leaf{{"", e.opaqueSort(t), t, ""}}
	}
	return []Leaf{{"", e.opaqueSort(t), t, ""}}
}

// fieldRange returns the leaf range [lo,hi) of field i in struct type t.
func (e *Engine) fieldRange(t types.Type, i int) (int, int, types.Type) {
	st := t.Underlying().(*types.Struct)
	if !flattenableStruct(t) {
		return 0, 1, st.Field(i).Type()
	}
	lo := 0
	for k := 0; k < i; k++ {
		lo += len(e.leavesOf(st.Field(k).Type()))
	}
	ft := st.Field(i).Type()
	return lo, lo + len(e.leavesOf(ft)), ft
}

// pathRange resolves a field path within root type.
func (e *Engine) pathRange(root types.Type, path []int) (int, int, types.Type, string) {
	lo, hi := 0, len(e.leavesOf(root))
	t := root
	suffix := ""
	for _, f := range path {
		st, ok := t.Underlying().(*types.Struct)
		if !ok {
			panic(fmt.Sprintf("pathRange: %s is not a struct", t))
		}
		a, b, ft := e.fieldRange(t, f)
		lo, hi = lo+a, lo+b
		suffix += "." + st.Field(f).Name()
		t = ft
	}
	return lo, hi, t, suffix
}

func zeroTerm(sort string) Term {
	switch sort {
	case "Int":
		return "0"
	case "Bool":
		return "false"
	case "Str":
		return "str_empty"
	case "Real":
		return "0.0"
	}
	return "zero_" + sort
}

func derefType(t types.Type) types.Type {
	if p, ok := t.Underlying().(*types.Pointer); ok {
		return p.Elem()
	}
	return nil
}

// sigKey is the key of type-level (function type) contracts: parameter and result types only.
func sigKey(sig *types.Signature) string {
	q := func(p *types.Package) string { return p.Name() }
	var ps, rs []string
	for i := 0; i < sig.Params().Len(); i++ {
		ps = append(ps, types.TypeString(sig.Params().At(i).Type(), q))
	}
	for i := 0; i < sig.Results().Len(); i++ {
		rs = append(rs, types.TypeString(sig.Results().At(i).Type(), q))
	}
	k := "func(" + strings.Join(ps, ", ") + ")"
	if len(rs) == 1 {
		k += " " + rs[0]
	} else if len(rs) > 1 {
		k += " (" + strings.Join(rs, ", ") + ")"
	}
	return "functype::" + k
}
