package main

import (
	"fmt"
	"strings"
	"go/token"
	"go/types"

	"golang.org/x/tools/go/ssa"
)

// ---------------------------------------------------------------------------
// channels: ghost counters cap/sent/recvd per channel reference

const chanArr = "(Array Int Int)"

func (u *Unit) chanInit(st *State, r, size Term) {
	for _, c := range []struct{ comp, v string }{{"C_cap", size}, {"C_sent", "0"}, {"C_recvd", "0"}, {"C_expect", "0"}, {"C_drain", "0"}} {
		h := u.heapGet(st, c.comp, chanArr)
		u.heapSetAt(st, c.comp, chanArr, fmt.Sprintf("(store %s %s %s)", h, r, c.v), r)
	}
}

func (u *Unit) chanGet(st *State, comp string, ch Term) Term {
	return fmt.Sprintf("(select %s %s)", u.heapGet(st, comp, chanArr), ch)
}

func (u *Unit) chanInc(st *State, comp string, ch Term) {
	h := u.heapGet(st, comp, chanArr)
	u.preciseNote = true
	u.heapSet(st, comp, chanArr, fmt.Sprintf("(store %s %s (+ (select %s %s) 1))", h, ch, h, ch))
	u.preciseNote = false
	if st.discover != nil {
		st.discover.noteHeap(comp, chanArr, ch)
	}
}

func (u *Unit) chanInvFor(elem types.Type) *ChanInv {
	if elem == nil {
		return nil
	}
	k := shortTypeKey(elem)
	for _, ci := range u.eng.cs.ChanInv {
		if ci.ElemType == k {
			return ci
		}
		// named / alias type given as pkg.Name
		if dot := strings.LastIndex(ci.ElemType, "."); dot > 0 && !strings.ContainsAny(ci.ElemType, "( ") {
			for _, sp := range u.eng.prog.AllPackages() {
				if sp.Pkg.Name() == ci.ElemType[:dot] && isRepoPkg(sp.Pkg) {
					if o := sp.Pkg.Scope().Lookup(ci.ElemType[dot+1:]); o != nil {
						if tn, ok := o.(*types.TypeName); ok && types.Identical(tn.Type(), elem) {
							return ci
						}
					}
				}
			}
		}
	}
	return nil
}

func chanElem(t types.Type) types.Type {
	if c, ok := t.Underlying().(*types.Chan); ok {
		return c.Elem()
	}
	return nil
}

func (u *Unit) chanInvTerm(st *State, ci *ChanInv, msg Val) (Term, error) {
	env := &SpecEnv{vars: map[string]Val{"msg": msg}, pkg: u.pkgOf(u.fn)}
	return u.evalBool(st, env, ci.Expr)
}

func (u *Unit) execSend(st *State, fr *Frame, chv ssa.Value, x Val, pos token.Pos) bool {
	ch := u.val(st, chv)
	c := ch.Terms[0]
	x = u.materialize(st, x)
	u.oblige(st, "nil", "chan", sNot(sEq(c, "0")), pos, "send on nil channel blocks forever", nil, "")
	if ci := u.chanInvFor(chanElem(chv.Type())); ci != nil {
		t, err := u.chanInvTerm(st, ci, x)
		if err != nil {
			u.fail(fmt.Sprintf("%s: chaninv: %v", ci.Where, err))
		} else {
			u.oblige(st, "chan-inv", "", t, pos, "sent message satisfies the channel invariant "+ci.Expr.String(), nil, ci.Where)
		}
	}
	if u.contract.Opts["send-nonblocking"] != "" {
		u.oblige(st, "chan-nonblock", "", fmt.Sprintf("(< (- %s %s) %s)", u.chanGet(st, "C_sent", c), u.chanGet(st, "C_recvd", c), u.chanGet(st, "C_cap", c)), pos, "send does not block: buffer has room", nil, "")
	}
	u.recordSent(st, c, x)
	u.chanInc(st, "C_sent", c)
	return !st.dead
}

// recordSent keeps the last message sent on a channel in ghost components so that
// contracts can speak about it: lastsent(ch).<leaf>
func (u *Unit) recordSent(st *State, c Term, x Val) {
	ls := u.eng.leavesOf(x.T)
	if len(ls) != len(x.Terms) {
		return
	}
	for i, l := range ls {
		comp := "C_last_" + mangle(stripMod(typeKey(x.T))) + mangle(l.Suffix)
		as := "(Array Int " + l.Sort + ")"
		h := u.heapGet(st, comp, as)
		u.heapSetAt(st, comp, as, fmt.Sprintf("(store %s %s %s)", h, c, x.Terms[i]), c)
	}
}

func (u *Unit) lastSent(st *State, ch Val) (Val, error) {
	et := chanElem(ch.T)
	if et == nil {
		return Val{}, fmt.Errorf("lastsent of non-channel")
	}
	ls := u.eng.leavesOf(et)
	ts := make([]Term, len(ls))
	for i, l := range ls {
		comp := "C_last_" + mangle(stripMod(typeKey(et))) + mangle(l.Suffix)
		as := "(Array Int " + l.Sort + ")"
		ts[i] = fmt.Sprintf("(select %s %s)", u.heapGet(st, comp, as), ch.Terms[0])
	}
	return Val{T: et, Terms: ts}, nil
}

// histVal: ghost history of received messages, one uninterpreted function per leaf.
func (u *Unit) histVal(ch Val, k Term) (Val, error) {
	et := chanElem(ch.T)
	if et == nil {
		return Val{}, fmt.Errorf("hist of non-channel")
	}
	ls := u.eng.leavesOf(et)
	ts := make([]Term, len(ls))
	for i, l := range ls {
		fn := "hist_" + mangle(stripMod(typeKey(et))) + mangle(l.Suffix)
		u.eng.gdecl(fn, fmt.Sprintf("(declare-fun %s (Int Int) %s)", fn, l.Sort))
		ts[i] = fmt.Sprintf("(%s %s %s)", fn, ch.Terms[0], k)
	}
	return Val{T: et, Terms: ts}, nil
}

func (u *Unit) recvValue(st *State, ch Val, t types.Type) Val {
	v := u.freshVal(st, "rcv", t)
	// ghost history: the value received is hist(ch, recvd-before)
	if hv, err := u.histVal(Val{T: types.NewChan(types.SendRecv, t), Terms: ch.Terms}, u.chanGet(st, "C_recvd", ch.Terms[0])); err == nil && len(hv.Terms) == len(v.Terms) {
		for i := range v.Terms {
			st.assume(sEq(v.Terms[i], hv.Terms[i]))
		}
	}
	if ci := u.chanInvFor(t); ci != nil {
		if tm, err := u.chanInvTerm(st, ci, v); err == nil {
			st.assume(tm)
		}
	}
	u.chanInc(st, "C_recvd", ch.Terms[0])
	if name := u.contract.Opts["recv-le-expected"]; name != "" {
		// rely: only the spawned, registered senders hold the named channel and each sends once
		fr := st.frames[0]
		env := &SpecEnv{vars: map[string]Val{}, fr: fr, useLocals: true, fn: fr.fn, pkg: u.pkgOf(fr.fn)}
		if cv, err := u.eval(st, env, &Spec{Kind: SIdent, Name: name}); err == nil && len(cv.Terms) == 1 {
			st.assume(fmt.Sprintf("(=> (= %s %s) (<= %s (select %s %s)))", ch.Terms[0], cv.Terms[0], u.chanGet(st, "C_recvd", ch.Terms[0]), u.heapGet(st, "C_expect", chanArr), ch.Terms[0]))
		} else {
			u.fail(u.name + ": opt recv-le-expected: no such local channel " + name)
		}
	}
	return v
}

func (u *Unit) execRecv(st *State, fr *Frame, in *ssa.UnOp, ch Val) bool {
	et := chanElem(in.X.Type())
	v := u.recvValue(st, ch, et)
	if in.CommaOk {
		ok := u.freshVal(st, "rok", tBool)
		fr.regs[in] = Val{T: in.Type(), Tuple: []Val{v, ok}}
	} else {
		fr.regs[in] = v
	}
	return true
}

// execSelect: nondeterministic choice over the arms (and default when non-blocking).
func (u *Unit) execSelect(st *State, fr *Frame, in *ssa.Select) bool {
	n := len(in.States)
	total := n
	if !in.Blocking {
		total = n + 1
	}
	if total == 0 {
		return false // select{} blocks forever
	}
	tupleT := in.Type().(*types.Tuple)
	single := u.contract.Opts["single-goroutine-chan"] != ""
	mk := func(s *State, idx int) bool {
		f := s.top()
		if single {
			// channels used by one goroutine only: an arm is ready iff its buffer state says so
			for i, sst := range in.States {
				c := u.val(s, sst.Chan).Terms[0]
				pending := fmt.Sprintf("(- %s %s)", u.chanGet(s, "C_sent", c), u.chanGet(s, "C_recvd", c))
				if sst.Dir == types.RecvOnly {
					if i == idx {
						s.assume(fmt.Sprintf("(> %s 0)", pending))
					} else if idx == n {
						s.assume(fmt.Sprintf("(<= %s 0)", pending))
					}
				}
			}
		}
		vals := []Val{intVal(sInt(int64(idx))), boolVal("true")}
		if idx >= 0 && idx < n {
			sst := in.States[idx]
			if sst.Dir == types.SendOnly {
				if !u.execSend(s, f, sst.Chan, u.val(s, sst.Send), sst.Pos) {
					return false
				}
			}
		}
		// received values: one slot per receive state, in order
		slot := 2
		for i, sst := range in.States {
			if sst.Dir != types.RecvOnly {
				continue
			}
			et := tupleT.At(slot).Type()
			if i == idx {
				ch := u.val(s, sst.Chan)
				vals = append(vals, u.recvValue(s, ch, et))
				vals[1] = u.freshVal(s, "rok", tBool)
			} else {
				vals = append(vals, u.zeroVal(et))
			}
			slot++
		}
		if idx == n { // default
			vals[0] = intVal("(- 1)")
			vals[1] = boolVal("false")
		}
		tv := Val{T: in.Type(), Tuple: vals}
		f.regs[in] = tv
		return !s.dead
	}
	for k := 1; k < total; k++ {
		o := u.fork(st)
		if mk(o, k) {
			u.work = append(u.work, o)
		}
	}
	return mk(st, 0)
}

// execGo: the spawned function's precondition must hold now; its effects are not
// visible to the spawner. Channel expectations are handled through contracts:
// a callee contract clause "opt go-sends <param>" records one expected send.
func (u *Unit) execGo(st *State, fr *Frame, in *ssa.Go) bool {
	cc := in.Common()
	var args []Val
	for _, a := range cc.Args {
		args = append(args, u.materialize(st, u.val(st, a)))
	}
	pos := in.Pos()
	if cc.IsInvoke() {
		u.abstraction(u.name + ": go on interface method: effects not tracked")
		return true
	}
	if _, ok := cc.Value.(*ssa.Builtin); ok {
		return true
	}
	fv := u.val(st, cc.Value)
	sig := cc.Signature()
	var c *FuncContract
	var env *SpecEnv
	name := "go"
	if fv.Fn != nil {
		c = u.eng.contractFor(fv.Fn.Fn)
		name = relName(fv.Fn.Fn)
		if c != nil {
			for i, p := range fv.Fn.Fn.Params {
				if i < len(args) {
					args[i].T = p.Type()
				}
			}
			env = u.contractEnvFn(fv.Fn.Fn, args, fv.Fn.Bind, nil, st)
		}
	} else {
		u.oblige(st, "nil", "fn", sNot(sEq(fv.Terms[0], "0")), pos, "go of nil function value", nil, "")
		key := sigKey(sig)
		if cc, ok := u.eng.cs.Funcs[key]; ok {
			c = cc
			self := fv
			env = u.sigEnv(sig, &self, args, nil, st, u.pkgOf(u.fn))
		}
	}
	if c == nil {
		u.abstraction(u.name + ": go " + stripMod(name) + " without contract: precondition not checked, effects not tracked")
		return true
	}
	c.Used = true
	if c.Trusted {
		u.trusted[c.Key()] = true
	}
	if !u.applyPre(st, c, env, "go:"+name, pos) {
		return false
	}
	// drain: the spawned function will receive <count> messages from <chan>
	if p := c.Opts["receives"]; p != "" {
		f := strings.Fields(p)
		if len(f) == 2 {
			chv, ok1 := env.vars[f[0]]
			nv, ok2 := env.vars[f[1]]
			if ok1 && ok2 {
				h := u.heapGet(st, "C_drain", chanArr)
				u.heapSet(st, "C_drain", chanArr, fmt.Sprintf("(store %s %s (+ (select %s %s) %s))", h, chv.Terms[0], h, chv.Terms[0], nv.Terms[0]))
			}
		}
	}
	// expected sends: the spawned function will send once on the named parameter
	if p := c.Opts["sends-once"]; p != "" {
		if chv, ok := env.vars[p]; ok {
			h := u.heapGet(st, "C_expect", chanArr)
			u.heapSet(st, "C_expect", chanArr, fmt.Sprintf("(store %s %s (+ (select %s %s) 1))", h, chv.Terms[0], h, chv.Terms[0]))
			st.expectChans = append(append([]Term(nil), st.expectChans...), chv.Terms[0])
		}
	}
	return !st.dead
}

// ---------------------------------------------------------------------------
// maps

func (u *Unit) mapKV(t types.Type) (*types.Map, string, bool) {
	m, ok := t.Underlying().(*types.Map)
	if !ok {
		return nil, "", false
	}
	kl := u.eng.leavesOf(m.Key())
	if len(kl) != 1 {
		return m, "", false
	}
	return m, kl[0].Sort, true
}

func (u *Unit) mapCompNames(m *types.Map, ks string) (has string, hasSort string) {
	base := "M_" + mangle(stripMod(typeKey(m.Key()))) + "_" + mangle(stripMod(typeKey(m.Elem())))
	return base + "_has", fmt.Sprintf("(Array Int (Array %s Bool))", ks)
}

func (u *Unit) mapLocs(mv Val) []loc {
	m, ks, ok := u.mapKV(mv.T)
	if !ok {
		return nil
	}
	base := "M_" + mangle(stripMod(typeKey(m.Key()))) + "_" + mangle(stripMod(typeKey(m.Elem())))
	var out []loc
	out = append(out, loc{comp: base + "_has", arrSort: fmt.Sprintf("(Array Int (Array %s Bool))", ks), sort: fmt.Sprintf("(Array %s Bool)", ks), kind: "F", ref: mv.Terms[0]})
	for _, l := range u.eng.leavesOf(m.Elem()) {
		out = append(out, loc{comp: base + "_val" + mangle(l.Suffix), arrSort: fmt.Sprintf("(Array Int (Array %s %s))", ks, l.Sort), sort: fmt.Sprintf("(Array %s %s)", ks, l.Sort), kind: "F", ref: mv.Terms[0]})
	}
	out = append(out, loc{comp: "M_len", arrSort: "(Array Int Int)", sort: "Int", kind: "F", ref: mv.Terms[0]})
	return out
}

func (u *Unit) mapInit(st *State, t types.Type, r Term) {
	m, ks, ok := u.mapKV(t)
	if !ok {
		return
	}
	has, hs := u.mapCompNames(m, ks)
	h := u.heapGet(st, has, hs)
	u.heapSetAt(st, has, hs, fmt.Sprintf("(store %s %s ((as const (Array %s Bool)) false))", h, r, ks), r)
	ml := u.heapGet(st, "M_len", "(Array Int Int)")
	u.heapSetAt(st, "M_len", "(Array Int Int)", fmt.Sprintf("(store %s %s 0)", ml, r), r)
}

func (u *Unit) mapHasPure(st *State, mv Val, k Val) Term {
	m, ks, ok := u.mapKV(mv.T)
	if !ok {
		return "false"
	}
	has, hs := u.mapCompNames(m, ks)
	return fmt.Sprintf("(select (select %s %s) %s)", u.heapGet(st, has, hs), mv.Terms[0], k.Terms[0])
}

func (u *Unit) mapGetPure(st *State, mv Val, k Val) Val {
	m, ks, ok := u.mapKV(mv.T)
	if !ok {
		return u.zeroVal(mv.T.Underlying().(*types.Map).Elem())
	}
	base := "M_" + mangle(stripMod(typeKey(m.Key()))) + "_" + mangle(stripMod(typeKey(m.Elem())))
	ls := u.eng.leavesOf(m.Elem())
	ts := make([]Term, len(ls))
	for i, l := range ls {
		comp := base + "_val" + mangle(l.Suffix)
		as := fmt.Sprintf("(Array Int (Array %s %s))", ks, l.Sort)
		ts[i] = fmt.Sprintf("(select (select %s %s) %s)", u.heapGet(st, comp, as), mv.Terms[0], k.Terms[0])
	}
	return Val{T: m.Elem(), Terms: ts}
}

func (u *Unit) execLookup(st *State, fr *Frame, in *ssa.Lookup) {
	xv := u.val(st, in.X)
	kv := u.materialize(st, u.val(st, in.Index))
	if isString(in.X.Type()) {
		s, i := xv.Terms[0], kv.Terms[0]
		u.oblige(st, "index", "", fmt.Sprintf("(and (<= 0 %s) (< %s (slen %s)))", i, i, s), in.Pos(), "string index in range", nil, "")
		fr.regs[in] = Val{T: in.Type(), Terms: []Term{fmt.Sprintf("(sat %s %s)", s, i)}}
		return
	}
	m, _, ok := u.mapKV(in.X.Type())
	if !ok {
		vt := in.X.Type().Underlying().(*types.Map).Elem()
		v := u.freshVal(st, "mv", vt)
		if in.CommaOk {
			fr.regs[in] = Val{T: in.Type(), Tuple: []Val{v, u.freshVal(st, "mok", tBool)}}
		} else {
			fr.regs[in] = v
		}
		u.abstraction(u.name + ": map with composite key havocked")
		return
	}
	has := u.define(st, "mhas", "Bool", sAnd(sNot(sEq(xv.Terms[0], "0")), u.mapHasPure(st, xv, kv)))
	got := u.mapGetPure(st, xv, kv)
	z := u.zeroVal(m.Elem())
	ts := make([]Term, len(got.Terms))
	for i := range ts {
		ts[i] = u.define(st, "mget", u.eng.leavesOf(m.Elem())[i].Sort, sIte(has, got.Terms[i], z.Terms[i]))
	}
	v := Val{T: m.Elem(), Terms: ts}
	u.assumeTyping(st, v)
	if in.CommaOk {
		fr.regs[in] = Val{T: in.Type(), Tuple: []Val{v, boolVal(has)}}
	} else {
		fr.regs[in] = v
	}
}

func (u *Unit) execMapUpdate(st *State, fr *Frame, in *ssa.MapUpdate) {
	mv := u.val(st, in.Map)
	kv := u.materialize(st, u.val(st, in.Key))
	vv := u.materialize(st, u.val(st, in.Value))
	u.oblige(st, "nil", "map", sNot(sEq(mv.Terms[0], "0")), in.Pos(), "assignment to entry in nil map", nil, "")
	m, ks, ok := u.mapKV(in.Map.Type())
	if !ok {
		u.abstraction(u.name + ": map with composite key: update ignored")
		return
	}
	locs := u.mapLocs(mv)
	u.frameCheck(st, locs, in.Pos())
	r, k := mv.Terms[0], kv.Terms[0]
	has, hs := u.mapCompNames(m, ks)
	h := u.heapGet(st, has, hs)
	was := u.define(st, "mwas", "Bool", fmt.Sprintf("(select (select %s %s) %s)", h, r, k))
	u.heapSet(st, has, hs, fmt.Sprintf("(store %s %s (store (select %s %s) %s true))", h, r, h, r, k))
	base := "M_" + mangle(stripMod(typeKey(m.Key()))) + "_" + mangle(stripMod(typeKey(m.Elem())))
	for i, l := range u.eng.leavesOf(m.Elem()) {
		comp := base + "_val" + mangle(l.Suffix)
		as := fmt.Sprintf("(Array Int (Array %s %s))", ks, l.Sort)
		hv := u.heapGet(st, comp, as)
		u.heapSet(st, comp, as, fmt.Sprintf("(store %s %s (store (select %s %s) %s %s))", hv, r, hv, r, k, vv.Terms[i]))
		if st.discover != nil {
			st.discover.noteHeap(comp, as, r)
		}
	}
	ml := u.heapGet(st, "M_len", "(Array Int Int)")
	u.heapSet(st, "M_len", "(Array Int Int)", fmt.Sprintf("(store %s %s (ite %s (select %s %s) (+ (select %s %s) 1)))", ml, r, was, ml, r, ml, r))
	if st.discover != nil {
		st.discover.noteHeap(has, hs, r)
		st.discover.noteHeap("M_len", "(Array Int Int)", r)
	}
}

func (u *Unit) mapDelete(st *State, mv, kv Val, pos token.Pos) {
	m, ks, ok := u.mapKV(mv.T)
	if !ok {
		return
	}
	locs := u.mapLocs(mv)
	u.frameCheck(st, locs, pos)
	r, k := mv.Terms[0], kv.Terms[0]
	has, hs := u.mapCompNames(m, ks)
	h := u.heapGet(st, has, hs)
	was := u.define(st, "mwas", "Bool", fmt.Sprintf("(select (select %s %s) %s)", h, r, k))
	u.heapSet(st, has, hs, fmt.Sprintf("(store %s %s (store (select %s %s) %s false))", h, r, h, r, k))
	ml := u.heapGet(st, "M_len", "(Array Int Int)")
	u.heapSet(st, "M_len", "(Array Int Int)", fmt.Sprintf("(store %s %s (ite %s (- (select %s %s) 1) (select %s %s)))", ml, r, was, ml, r, ml, r))
	if st.discover != nil {
		st.discover.noteHeap(has, hs, r)
		st.discover.noteHeap("M_len", "(Array Int Int)", r)
	}
}

// range over map / string: opaque iterator
func (u *Unit) execRange(st *State, fr *Frame, in *ssa.Range) {
	xv := u.val(st, in.X)
	fr.regs[in] = Val{T: in.Type(), Terms: []Term{"0"}, Inner: &xv}
	if isString(in.X.Type()) {
		st.setIter(in, "0")
		if st.discover != nil {
			st.discover.iters[in] = true
		}
	}
}

func (st *State) setIter(r *ssa.Range, pos Term) {
	n := make(map[*ssa.Range]Term, len(st.iters)+1)
	for k, v := range st.iters {
		n[k] = v
	}
	n[r] = pos
	st.iters = n
}

func (u *Unit) execNext(st *State, fr *Frame, in *ssa.Next) {
	it := u.val(st, in.Iter)
	tt := in.Type().(*types.Tuple)
	ok := u.freshVal(st, "nxt_ok", tBool)
	kt, vt := tt.At(1).Type(), tt.At(2).Type()
	if it.Inner != nil && it.Inner.T != nil {
		// an unused key / value has the invalid type in the tuple: take the map's own types
		if mt, isMap := it.Inner.T.Underlying().(*types.Map); isMap {
			if b, ok := kt.(*types.Basic); ok && b.Kind() == types.Invalid {
				kt = mt.Key()
			}
			if b, ok := vt.(*types.Basic); ok && b.Kind() == types.Invalid {
				vt = mt.Elem()
			}
		}
	}
	k := u.freshVal(st, "nxt_k", kt)
	v := u.freshVal(st, "nxt_v", vt)
	if it.Inner != nil {
		x := *it.Inner
		if rg, isR := in.Iter.(*ssa.Range); in.IsString && isR && st.iters[rg] != "" {
			// sequential iteration over the runes of the string: position pos, rune v, width w
			pos, sx := st.iters[rg], x.Terms[0]
			w := u.fresh(st, "rw", "Int")
			st.assume(fmt.Sprintf("(= %s (< %s (slen %s)))", ok.Terms[0], pos, sx))
			if isInteger(tt.At(1).Type()) {
				st.assume(fmt.Sprintf("(=> %s (= %s %s))", ok.Terms[0], k.Terms[0], pos))
			}
			vt := v.Terms[0]
			if !isInteger(tt.At(2).Type()) {
				vt = u.fresh(st, "rune", "Int")
			}
			st.assume(fmt.Sprintf("(=> %s (and (<= 0 %s) (<= 1 %s) (<= %s 4) (<= (+ %s %s) (slen %s))))", ok.Terms[0], vt, w, w, pos, w, sx))
			st.assume(fmt.Sprintf("(=> (and %s (< %s 128)) (and (= %s 1) (= %s (sat %s %s))))", ok.Terms[0], vt, w, vt, sx, pos))
			v.Terms[0] = vt
			// newline prefix count: only the one-byte rune 10 is a newline
			st.assume(fmt.Sprintf("(=> %s (= (nlp %s (+ %s %s)) (+ (nlp %s %s) (ite (= %s 10) 1 0))))", ok.Terms[0], sx, pos, w, sx, pos, vt))
			np := u.define(st, "itpos", "Int", fmt.Sprintf("(ite %s (+ %s %s) %s)", ok.Terms[0], pos, w, pos))
			st.setIter(rg, np)
			if st.discover != nil {
				st.discover.iters[rg] = true
			}
		} else if in.IsString {
			st.assume(fmt.Sprintf("(=> %s (and (<= 0 %s) (< %s (slen %s)) (<= 0 %s)))", ok.Terms[0], k.Terms[0], k.Terms[0], x.Terms[0], v.Terms[0]))
			st.assume(fmt.Sprintf("(=> (= (slen %s) 0) (not %s))", x.Terms[0], ok.Terms[0]))
		} else if m, _, mok := u.mapKV(x.T); mok && len(k.Terms) == 1 {
			st.assume(fmt.Sprintf("(=> %s %s)", ok.Terms[0], sAnd(sNot(sEq(x.Terms[0], "0")), u.mapHasPure(st, x, k))))
			got := u.mapGetPure(st, x, k)
			if len(got.Terms) == len(v.Terms) && tt.At(2).Type() != types.Typ[types.Invalid] {
				for i := range got.Terms {
					st.assume(fmt.Sprintf("(=> %s (= %s %s))", ok.Terms[0], v.Terms[i], got.Terms[i]))
				}
			}
			_ = m
		}
	}
	fr.regs[in] = Val{T: in.Type(), Tuple: []Val{ok, k, v}}
}
