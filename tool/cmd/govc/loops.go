package main

import (
	"fmt"
	"sort"
	"go/token"
	"go/types"
	"regexp"
	"strconv"
	"strings"

	"golang.org/x/tools/go/ssa"
)

var symID = regexp.MustCompile(`(?:!|\bH)(\d+)`)

func maxSymID(t Term) int {
	m := 0
	for _, x := range symID.FindAllStringSubmatch(t, -1) {
		n, _ := strconv.Atoi(x[1])
		if n > m {
			m = n
		}
	}
	return m
}

func headPhis(b *ssa.BasicBlock) []*ssa.Phi {
	var out []*ssa.Phi
	for _, in := range b.Instrs {
		if p, ok := in.(*ssa.Phi); ok {
			out = append(out, p)
		} else if _, ok := in.(*ssa.DebugRef); ok {
			continue
		} else {
			break
		}
	}
	return out
}

func firstNonPhi(b *ssa.BasicBlock) int {
	for i, in := range b.Instrs {
		if _, ok := in.(*ssa.Phi); !ok {
			return i
		}
	}
	return len(b.Instrs)
}

// rangeIndexPattern recognises the hidden index of a range-over-slice/int loop in
// naive form: head: k = *cell; k1 = k + 1; *cell = k1; c = k1 < n; if c ...
// (cell is the alloc named "rangeindex"). Returns the cell and the bound n.
func rangeIndexPattern(b *ssa.BasicBlock) (*ssa.Alloc, ssa.Value) {
	for _, in := range b.Instrs {
		bo, ok := in.(*ssa.BinOp)
		if !ok || bo.Op != token.LSS {
			continue
		}
		add, ok := bo.X.(*ssa.BinOp)
		if !ok || add.Op != token.ADD {
			continue
		}
		ld, ok := add.X.(*ssa.UnOp)
		if !ok || ld.Op != token.MUL {
			continue
		}
		if a, ok := ld.X.(*ssa.Alloc); ok && a.Comment == "rangeindex" {
			return a, bo.Y
		}
	}
	return nil, nil
}

// loopSpecFor returns the specification of loop ord of frame fr and the frame in whose
// vocabulary it is written: the frame itself, or - for a loop of an inlined callee that the
// function under contract specifies ("inlined <callee> loop N ...") - the root frame.
func (u *Unit) loopSpecFor(st *State, fr *Frame, ord int) (*LoopSpec, *Frame) {
	if len(st.frames) > 1 && fr != st.frames[0] && u.contract != nil && u.contract.InlinedLoops != nil {
		if m := u.contract.InlinedLoops[relName(fr.fn)]; m != nil && m[ord] != nil {
			return m[ord], st.frames[0]
		}
	}
	if fr.contract != nil {
		return fr.contract.Loops[ord], fr
	}
	return nil, fr
}

// loopTag names a loop in obligation names: "#N" for the function under contract,
// "#callee:N" for a loop of an inlined callee.
func (u *Unit) loopTag(st *State, fr *Frame, ord int) string {
	if len(st.frames) > 1 && fr != st.frames[0] {
		return fmt.Sprintf("#%s:%d", relName(fr.fn), ord)
	}
	return fmt.Sprintf("#%d", ord)
}

func (u *Unit) loopEnv(st *State, lfr *Frame, head *ssa.BasicBlock) *SpecEnv {
	fr := lfr
	if _, efr := u.loopSpecFor(st, lfr, u.eng.loopsOf(lfr.fn).ordinal[head]); efr != nil {
		fr = efr
	}
	var env *SpecEnv
	if len(st.frames) == 1 || fr == st.frames[0] {
		env = u.contractEnvFn(fr.fn, nil, fr.bind, nil, fr.entry)
	} else {
		env = u.contractEnvFn(fr.fn, nil, fr.bind, nil, nil)
	}
	// parameters resolve to their current cells through useLocals; keep entry values under old()
	env.fr = fr
	env.useLocals = true
	env.entryVars = map[string]Val{}
	for i, p := range fr.fn.Params {
		if i < len(fr.params) {
			env.entryVars[p.Name()] = fr.params[i]
		}
	}
	// params that are never re-assigned have no cell in non-naive form; bind fallbacks
	for i, p := range fr.fn.Params {
		if u.findLocal(fr, p.Name()) == nil && i < len(fr.params) {
			env.vars[p.Name()] = fr.params[i]
		}
	}
	for _, in := range head.Instrs {
		if nx, ok := in.(*ssa.Next); ok {
			if rg, ok := nx.Iter.(*ssa.Range); ok && st.iters[rg] != "" {
				env.vars["$pos"] = intVal(st.iters[rg])
			}
		}
	}
	if cell, _ := rangeIndexPattern(head); cell != nil {
		if cells, ok := u.frameOf(st, lfr).locals[cell]; ok {
			env.vars["$k"] = intVal(cells[0])
			env.vars["$n"] = intVal(fmt.Sprintf("(+ %s 1)", cells[0]))
		}
	}
	return env
}

type invItem struct {
	spec  *Spec
	env   *SpecEnv
	label string
	term  Term
	src   string
	where string
	props []string
}

func (u *Unit) loopInvariants(st *State, fr *Frame, head *ssa.BasicBlock, ord int) []invItem {
	var out []invItem
	if cell, n := rangeIndexPattern(head); cell != nil {
		if cells, ok := fr.locals[cell]; ok {
			nv := u.val(st, n)
			out = append(out, invItem{label: "auto-range", term: fmt.Sprintf("(and (<= (- 1) %s) (< %s %s))", cells[0], cells[0], nv.Terms[0]), src: "-1 <= $k < len (range index)"})
		}
	}
	spec, _ := u.loopSpecFor(st, fr, ord)
	if spec == nil {
		return out
	}
	env := u.loopEnv(st, fr, head)
	for i, c := range spec.Invariants {
		t, err := u.evalBool(st, env, c.Expr)
		if err != nil {
			u.fail(fmt.Sprintf("%s: loop %d invariant %q: %v", c.Where, ord, c.Src, err))
			continue
		}
		label := c.Label
		if label == "" {
			label = fmt.Sprintf("%d", i+1)
		}
		out = append(out, invItem{label: label, term: t, src: c.Src, where: c.Where, props: c.Props, spec: c.Expr, env: env})
	}
	return out
}

func (u *Unit) enterLoopHead(st *State, fr *Frame, head *ssa.BasicBlock, li *loopInfo) bool {
	ord := li.ordinal[head]
	from := fr.block
	phis := headPhis(head)
	evalPhis := func() {
		for _, p := range phis {
			set := false
			for i, pr := range head.Preds {
				if pr == from {
					fr.regs[p] = u.val(st, p.Edges[i])
					set = true
					break
				}
			}
			if !set {
				fr.regs[p] = u.freshVal(st, "phi", p.Type())
			}
		}
	}
	if lspec, _ := u.loopSpecFor(st, fr, ord); lspec != nil && lspec.Unroll > 0 && st.discover == nil {
		// complete unrolling: the head is simply executed again; arriving more than Unroll+1
		// times is an obligation (unwinding assertion), so nothing is cut off silently
		ls := fr.loops[head]
		if ls == nil {
			ls = &loopState{}
		} else {
			c := *ls
			ls = &c
		}
		ls.arrivals++
		fr.loops[head] = ls
		if ls.arrivals > lspec.Unroll+1 {
			u.oblige(st, "unwind"+u.loopTag(st, fr, ord), "", "false", head.Instrs[0].Pos(), fmt.Sprintf("loop runs at most %d times (unwinding assertion)", lspec.Unroll), nil, "")
			return false
		}
		evalPhis()
		fr.prev = from
		fr.block = head
		fr.idx = firstNonPhi(head)
		return true
	}
	if ls, active := fr.loops[head]; active {
		// back edge
		if st.discover != nil {
			return false
		}
		evalPhis()
		tag := u.loopTag(st, fr, ord)
		for _, it := range u.loopInvariants(st, fr, head, ord) {
			if it.spec != nil {
				if err := u.obligeClause(st, it.env, it.spec, "inv-step"+tag, it.label, head.Instrs[0].Pos(), "loop invariant preserved: "+it.src, it.props, it.where); err != nil {
					u.fail(fmt.Sprintf("%s: loop invariant %q: %v", it.where, it.src, err))
				}
				continue
			}
			u.oblige(st, "inv-step"+tag, it.label, it.term, head.Instrs[0].Pos(), "loop invariant preserved: "+it.src, it.props, it.where)
		}
		if lspec, _ := u.loopSpecFor(st, fr, ord); lspec != nil {
			env := u.loopEnv(st, fr, head)
			env.atHead = ls.atHead
			for i, c := range lspec.Steps {
				u.goalEval = true
				t, err := u.evalBool(st, env, c.Expr)
				u.goalEval = false
				if err != nil {
					u.fail(fmt.Sprintf("%s: loop %d step %q: %v", c.Where, ord, c.Src, err))
					continue
				}
				label := c.Label
				if label == "" {
					label = fmt.Sprintf("%d", i+1)
				}
				u.oblige(st, "loop-step"+tag, label, t, head.Instrs[0].Pos(), "when the loop goes round again: "+c.Src, c.Props, c.Where)
			}
		}
		if ls.hasVar {
			spec, _ := u.loopSpecFor(st, fr, ord)
			env := u.loopEnv(st, fr, head)
			v1, err := u.evalInt(st, env, spec.Decreases.Expr)
			if err != nil {
				u.fail(fmt.Sprintf("%s: decreases: %v", spec.Decreases.Where, err))
			} else {
				u.oblige(st, "dec"+tag, "", fmt.Sprintf("(and (< %s %s) (<= 0 %s))", v1, ls.variant, ls.variant), head.Instrs[0].Pos(), "loop variant decreases: "+spec.Decreases.Src, spec.Decreases.Props, spec.Decreases.Where)
			}
		}
		return false
	}
	// first arrival
	evalPhis()
	tag := u.loopTag(st, fr, ord)
	if st.discover == nil {
		for _, it := range u.loopInvariants(st, fr, head, ord) {
			if it.spec != nil {
				if err := u.obligeClause(st, it.env, it.spec, "inv-init"+tag, it.label, head.Instrs[0].Pos(), "loop invariant holds on entry: "+it.src, it.props, it.where); err != nil {
					u.fail(fmt.Sprintf("%s: loop invariant %q: %v", it.where, it.src, err))
				}
				continue
			}
			u.oblige(st, "inv-init"+tag, it.label, it.term, head.Instrs[0].Pos(), "loop invariant holds on entry: "+it.src, it.props, it.where)
		}
	}
	if st.dead {
		return false
	}
	// discovery of the loop's write set
	threshold := u.freshN
	ws := &writeSet{locals: map[*ssa.Alloc]bool{}, comps: map[string][]Term{}, whole: map[string]bool{}, depth: len(st.frames), threshold: threshold, iters: map[*ssa.Range]bool{}}
	{
		d := st.clone()
		d.discover = ws
		dfr := d.top()
		dfr.stopAt = li.body[head]
		dfr.loops[head] = &loopState{}
		dfr.prev = from
		dfr.block = head
		dfr.idx = firstNonPhi(head)
		saved := u.work
		u.work = []*State{d}
		for len(u.work) > 0 {
			s := u.work[len(u.work)-1]
			u.work = u.work[:len(u.work)-1]
			u.runPath(s)
			if u.paths > u.maxPaths {
				break
			}
		}
		u.work = saved
	}
	// havoc (earlier iterations may have allocated: the typing of the havocked values refers to
	// the allocation counter after the bump)
	u.bumpAlloc(st)
	var wlocals []*ssa.Alloc
	for a := range ws.locals {
		wlocals = append(wlocals, a)
	}
	sort.Slice(wlocals, func(i, j int) bool {
		if wlocals[i].Pos() != wlocals[j].Pos() {
			return wlocals[i].Pos() < wlocals[j].Pos()
		}
		return wlocals[i].Name() < wlocals[j].Name()
	})
	for _, a := range wlocals {
		if cells, ok := fr.locals[a]; ok {
			nv := u.freshVal(st, "lv_"+a.Comment, derefType(a.Type()))
			_ = cells
			fr.locals[a] = nv.Terms
			if st.discover != nil && len(st.frames) == st.discover.depth {
				st.discover.locals[a] = true
			}
		}
	}
	for _, k := range sortedKeys(ws.whole) {
		parts := strings.SplitN(k, "|", 2)
		u.heapHavoc(st, parts[0], parts[1])
		if st.discover != nil {
			st.discover.noteWhole(parts[0], parts[1])
		}
	}
	for _, k := range sortedKeys(ws.comps) {
		if ws.whole[k] {
			continue
		}
		parts := strings.SplitN(k, "|", 2)
		comp, as := parts[0], parts[1]
		refs := ws.comps[k]
		inv := true
		uniq := map[Term]bool{}
		for _, r := range refs {
			if maxSymID(r) > threshold {
				inv = false
				break
			}
			uniq[r] = true
		}
		if !inv {
			u.heapHavoc(st, comp, as)
			if st.discover != nil {
				st.discover.noteWhole(comp, as)
			}
			continue
		}
		h := u.heapGet(st, comp, as)
		t := h
		elemSort := innerSort(as)
		for _, r := range sortedTermSet(uniq) {
			u.freshN++
			fv := fmt.Sprintf("lh!%d", u.freshN)
			st.add(fmt.Sprintf("(declare-const %s %s)", fv, elemSort))
			t = fmt.Sprintf("(store %s %s %s)", t, r, fv)
			if st.discover != nil {
				st.discover.noteHeap(comp, as, r)
			}
		}
		u.heapSet(st, comp, as, t)
	}
	for _, p := range phis {
		fr.regs[p] = u.freshVal(st, "phi_"+p.Name(), p.Type())
	}
	var witers []*ssa.Range
	for rg := range ws.iters {
		witers = append(witers, rg)
	}
	sort.Slice(witers, func(i, j int) bool { return witers[i].Pos() < witers[j].Pos() })
	for _, rg := range witers {
		if _, ok := st.iters[rg]; ok {
			np := u.fresh(st, "itpos", "Int")
			if rv, ok := fr.regs[rg]; ok && rv.Inner != nil {
				st.assume(fmt.Sprintf("(and (<= 0 %s) (<= %s (slen %s)))", np, np, rv.Inner.Terms[0]))
			}
			st.setIter(rg, np)
			if st.discover != nil {
				st.discover.iters[rg] = true
			}
		}
	}
	u.bumpAlloc(st)
	fr.prev = from
	fr.block = head
	fr.idx = firstNonPhi(head)
	// assume invariants
	for _, it := range u.loopInvariants(st, fr, head, ord) {
		st.assume(it.term)
		if it.spec != nil {
			u.harvest(st, it.env, it.spec, "true", 0)
		}
	}
	ls := &loopState{}
	{
		if spec, _ := u.loopSpecFor(st, fr, ord); spec != nil && spec.Decreases != nil {
			env := u.loopEnv(st, fr, head)
			v0, err := u.evalInt(st, env, spec.Decreases.Expr)
			if err != nil {
				u.fail(fmt.Sprintf("%s: decreases: %v", spec.Decreases.Where, err))
			} else {
				ls.variant = u.define(st, "variant", "Int", v0)
				ls.hasVar = true
			}
		}
	}
	// athead(e) in step clauses: the value of e when this iteration started
	if lspec, _ := u.loopSpecFor(st, fr, ord); lspec != nil && len(lspec.Steps) > 0 {
		env := u.loopEnv(st, fr, head)
		var walk func(e *Spec)
		walk = func(e *Spec) {
			if e == nil {
				return
			}
			if e.Kind == SCall && e.A == nil && e.Name == "athead" && len(e.Args) == 1 {
				if v, err := u.eval(st, env, e.Args[0]); err == nil {
					if ls.atHead == nil {
						ls.atHead = map[string]Val{}
					}
					ls.atHead[e.Args[0].String()] = v
				}
				return
			}
			walk(e.A)
			walk(e.B)
			walk(e.C)
			for _, a := range e.Args {
				walk(a)
			}
		}
		for _, c := range lspec.Steps {
			walk(c.Expr)
		}
	}
	// ... and in call-site clauses of calls made inside the loop
	if fr.contract != nil && len(st.frames) == 1 {
		env := u.loopEnv(st, fr, head)
		var walk func(e *Spec)
		walk = func(e *Spec) {
			if e == nil {
				return
			}
			if e.Kind == SCall && e.A == nil && e.Name == "athead" && len(e.Args) == 1 {
				if v, err := u.eval(st, env, e.Args[0]); err == nil {
					if ls.atHead == nil {
						ls.atHead = map[string]Val{}
					}
					ls.atHead[e.Args[0].String()] = v
				}
				return
			}
			walk(e.A)
			walk(e.B)
			walk(e.C)
			for _, a := range e.Args {
				walk(a)
			}
		}
		for _, c := range fr.contract.CallSites {
			walk(c.Clause.Expr)
		}
	}
	fr.curLoop = ls
	fr.loops[head] = ls
	u.coverBlock(st, fr, head)
	return !st.dead
}

func innerSort(arrSort string) string {
	// "(Array Int X)" -> X
	s := strings.TrimPrefix(arrSort, "(Array Int ")
	return strings.TrimSuffix(s, ")")
}

func sortedTermSet(m map[Term]bool) []Term {
	var ks []string
	for k := range m {
		ks = append(ks, k)
	}
	// deterministic order
	for i := 0; i < len(ks); i++ {
		for j := i + 1; j < len(ks); j++ {
			if ks[j] < ks[i] {
				ks[i], ks[j] = ks[j], ks[i]
			}
		}
	}
	return ks
}

var _ = types.Typ
