package main

import (
	"fmt"
	"go/token"
	"go/types"
	"os"
	"path/filepath"
	"sort"
	"strings"

	"golang.org/x/tools/go/packages"
	"golang.org/x/tools/go/ssa"
	"golang.org/x/tools/go/ssa/ssautil"
)

const repoMod = "github.com/ory/keto"

type Engine struct {
	repo    string
	pkgs    []*packages.Package
	prog    *ssa.Program
	fset    *token.FileSet
	cs      *Contracts
	fnByKey map[string]*ssa.Function
	tinfo   map[string]*typeInfo

	// global SMT declarations (shared by all queries of a run)
	sorts     []string
	sortSet   map[string]bool
	gdecls    []string
	gdeclSet  map[string]bool
	gaxioms   []string
	typeTags  map[string]int
	tagTypes  []types.Type
	strLits   map[string]string
	globalRef map[*ssa.Global]int
	ghostVars map[string]string // name -> sort

	loopInfo map[*ssa.Function]*loopInfo
	fnIDs    map[*ssa.Function]int
	axiomsLoaded bool
	refTags  map[string]int
	srcCache map[string][]string
	sealedCache map[string][]types.Type
}

func relName(fn *ssa.Function) string {
	if fn.Pkg != nil {
		return fn.RelString(fn.Pkg.Pkg)
	}
	// closures / instantiations: find the package of the outermost parent
	p := fn
	for p.Parent() != nil {
		p = p.Parent()
	}
	if p.Pkg != nil {
		return fn.RelString(p.Pkg.Pkg)
	}
	if fn.Origin() != nil && fn.Origin().Pkg != nil {
		return fn.RelString(fn.Origin().Pkg.Pkg)
	}
	return fn.String()
}

func fnPkgPath(fn *ssa.Function) string {
	p := fn
	for p.Parent() != nil {
		p = p.Parent()
	}
	if p.Pkg != nil {
		return p.Pkg.Pkg.Path()
	}
	if p.Origin() != nil && p.Origin().Pkg != nil {
		return p.Origin().Pkg.Pkg.Path()
	}
	if p.Object() != nil && p.Object().Pkg() != nil {
		return p.Object().Pkg().Path()
	}
	// wrapper / synthetic: derive from the receiver type
	if p.Signature.Recv() != nil {
		t := p.Signature.Recv().Type()
		if pt, ok := t.(*types.Pointer); ok {
			t = pt.Elem()
		}
		if n, ok := types.Unalias(t).(*types.Named); ok && n.Obj().Pkg() != nil {
			return n.Obj().Pkg().Path()
		}
	}
	return ""
}

func fnKey(fn *ssa.Function) string {
	return fnPkgPath(fn) + "::" + relName(fn)
}

func LoadEngine(repo string, patterns []string, trustedDir string) (*Engine, error) {
	cfg := &packages.Config{
		Mode:       packages.LoadAllSyntax,
		Dir:        repo,
		BuildFlags: []string{"-tags=verif"},
		Env:        append(os.Environ(), "GOFLAGS=-mod=mod", "GOPROXY=off"),
	}
	pkgs, err := packages.Load(cfg, patterns...)
	if err != nil {
		return nil, err
	}
	nerr := 0
	packages.Visit(pkgs, nil, func(p *packages.Package) {
		for _, e := range p.Errors {
			if strings.HasPrefix(p.PkgPath, repoMod) {
				fmt.Fprintf(os.Stderr, "load error: %s: %v\n", p.PkgPath, e)
				nerr++
			}
		}
	})
	if nerr > 0 {
		return nil, fmt.Errorf("%d load errors in repository packages", nerr)
	}
	prog, _ := ssautil.AllPackages(pkgs, ssa.NaiveForm|ssa.GlobalDebug|ssa.InstantiateGenerics)
	prog.Build()
	e := &Engine{
		repo: repo, pkgs: pkgs, prog: prog, fset: prog.Fset, cs: NewContracts(),
		fnByKey: map[string]*ssa.Function{}, tinfo: map[string]*typeInfo{},
		sortSet: map[string]bool{}, gdeclSet: map[string]bool{}, typeTags: map[string]int{},
		strLits: map[string]string{}, globalRef: map[*ssa.Global]int{}, ghostVars: map[string]string{},
		loopInfo: map[*ssa.Function]*loopInfo{}, fnIDs: map[*ssa.Function]int{}, refTags: map[string]int{},
	}
	for fn := range ssautil.AllFunctions(prog) {
		if fn == nil {
			continue
		}
		pp := fnPkgPath(fn)
		if pp == "" {
			continue
		}
		k := fnKey(fn)
		if old, ok := e.fnByKey[k]; ok && old.Synthetic == "" {
			continue
		}
		e.fnByKey[k] = fn
	}
	// contracts from //@ comments in repository packages
	var perr error
	packages.Visit(pkgs, nil, func(p *packages.Package) {
		if !strings.HasPrefix(p.PkgPath, repoMod) {
			return
		}
		for _, f := range p.Syntax {
			var lines, wheres []string
			for _, cg := range f.Comments {
				for _, c := range cg.List {
					if strings.HasPrefix(c.Text, "//@") {
						pos := e.fset.Position(c.Pos())
						lines = append(lines, strings.TrimPrefix(c.Text, "//@"))
						rel, _ := filepath.Rel(repo, pos.Filename)
						wheres = append(wheres, fmt.Sprintf("%s:%d", rel, pos.Line))
					}
				}
			}
			if len(lines) > 0 {
				if err := e.cs.LoadLines(p.PkgPath, lines, wheres); err != nil && perr == nil {
					perr = err
				}
			}
		}
	})
	if perr != nil {
		return nil, perr
	}
	if trustedDir != "" {
		if err := e.cs.LoadSpecDir(trustedDir); err != nil {
			return nil, err
		}
	}
	for k, v := range e.cs.GhostVars {
		e.ghostVars[k] = v
	}
	if err := e.resolveFuncTypeKeys(); err != nil {
		return nil, err
	}
	if err := e.cs.ResolveLikes(); err != nil {
		return nil, err
	}
	return e, nil
}

func (e *Engine) declareSort(name string) {
	if !e.sortSet[name] {
		e.sortSet[name] = true
		e.sorts = append(e.sorts, name)
		e.gdecl("zero_"+name, fmt.Sprintf("(declare-const zero_%s %s)", name, name))
	}
}

func (e *Engine) gdecl(name, line string) {
	if !e.gdeclSet[name] {
		e.gdeclSet[name] = true
		e.gdecls = append(e.gdecls, line)
	}
}

func (e *Engine) typeTag(t types.Type) int {
	k := typeKey(t)
	if n, ok := e.typeTags[k]; ok {
		return n
	}
	n := len(e.typeTags) + 1
	e.typeTags[k] = n
	e.tagTypes = append(e.tagTypes, t)
	return n
}

func (e *Engine) strLit(s string) Term {
	if s == "" {
		return "str_empty"
	}
	if n, ok := e.strLits[s]; ok {
		return n
	}
	name := fmt.Sprintf("strlit_%d", len(e.strLits))
	e.strLits[s] = name
	return name
}

func (e *Engine) globalTerm(g *ssa.Global) Term {
	n, ok := e.globalRef[g]
	if !ok {
		n = len(e.globalRef) + 1
		e.globalRef[g] = n
	}
	return sInt(int64(-n))
}

// Prelude renders the global part of every query.
func (e *Engine) Prelude() string { return e.prelude(false) }

// PreludeQF omits every quantified axiom: used for reachability (cover) queries, where
// "unsat" without the axioms implies "unsat" with them (definitely vacuous) and "sat"
// means "not shown vacuous at the quantifier-free level".
func (e *Engine) PreludeQF() string { return e.prelude(true) }

func (e *Engine) prelude(qf bool) string {
	s := e.preludeFull()
	if !qf {
		return s
	}
	var b strings.Builder
	for _, l := range strings.Split(s, "\n") {
		if strings.Contains(l, "(forall ") || strings.Contains(l, "(exists ") {
			continue
		}
		b.WriteString(l)
		b.WriteString("\n")
	}
	return b.String()
}

func (e *Engine) preludeFull() string {
	var b strings.Builder
	b.WriteString("(declare-sort Str 0)\n")
	for _, s := range e.sorts {
		fmt.Fprintf(&b, "(declare-sort %s 0)\n", s)
	}
	b.WriteString(`(declare-const str_empty Str)
(declare-fun reftype (Int) Int)
(declare-fun fnid (Int) Int)
(assert (= (fnid 0) 0))
(declare-fun capv (Int Int) Int)
(declare-fun slen (Str) Int)
(declare-fun sat (Str Int) Int)
(declare-fun scat (Str Str) Str)
(declare-fun ssub (Str Int Int) Str)
(declare-fun slt (Str Str) Bool)
(declare-fun qmarks (Str) Int)
(declare-fun nlp (Str Int) Int)
(declare-fun chr (Int) Str)
(declare-fun nosep (Str Int) Bool)
(declare-fun firstb (Str) Int)
(declare-fun lastb (Str) Int)
(declare-fun box_Str (Str) Int)
(declare-fun unbox_Str (Int) Str)
(declare-fun box_Int (Int) Int)
(declare-fun unbox_Int (Int) Int)
(declare-fun box_Bool (Bool) Int)
(declare-fun unbox_Bool (Int) Bool)
(assert (forall ((s Str)) (! (= (unbox_Str (box_Str s)) s) :pattern ((box_Str s)))))
(assert (forall ((s Int)) (! (= (unbox_Int (box_Int s)) s) :pattern ((box_Int s)))))
(assert (forall ((s Bool)) (! (= (unbox_Bool (box_Bool s)) s) :pattern ((box_Bool s)))))
(assert (= (slen str_empty) 0))
(assert (= (qmarks str_empty) 0))
(assert (forall ((c Int)) (! (and (= (slen (chr c)) 1) (=> (and (<= 0 c) (< c 256)) (= (sat (chr c) 0) c))) :pattern ((chr c)))))
(assert (forall ((a Str) (b Str) (c Int)) (! (= (nosep (scat a b) c) (and (nosep a c) (nosep b c))) :pattern ((nosep (scat a b) c)))))
(assert (forall ((c Int)) (! (nosep str_empty c) :pattern ((nosep str_empty c)))))
(assert (forall ((d Int) (c Int)) (! (=> (and (<= 0 d) (< d 256)) (= (nosep (chr d) c) (not (= d c)))) :pattern ((nosep (chr d) c)))))
(assert (forall ((a Str) (b Str) (c Str)) (! (= (scat (scat a b) c) (scat a (scat b c))) :pattern ((scat (scat a b) c)))))
(assert (forall ((a1 Str) (a2 Str) (b Str) (a3 Str) (b2 Str) (c Int)) (! (=> (and (nosep a1 c) (nosep a2 c) (nosep a3 c) (= (scat a1 (scat a2 (scat (chr c) b))) (scat a3 (scat (chr c) b2)))) (and (= a3 (scat a1 a2)) (= b b2))) :pattern ((scat a1 (scat a2 (scat (chr c) b))) (scat a3 (scat (chr c) b2))))))
(assert (forall ((a1 Str) (x Str) (a2 Str) (b Str) (a3 Str) (b2 Str) (c Int)) (! (=> (and (nosep a1 c) (nosep x c) (nosep a2 c) (nosep a3 c) (= (scat a1 (scat x (scat a2 (scat (chr c) b)))) (scat a3 (scat (chr c) b2)))) (and (= a3 (scat a1 (scat x a2))) (= b b2))) :pattern ((scat a1 (scat x (scat a2 (scat (chr c) b)))) (scat a3 (scat (chr c) b2))))))
(assert (= (firstb str_empty) (- 1)))
(assert (= (lastb str_empty) (- 1)))
(assert (forall ((a Str) (b Str)) (! (= (firstb (scat a b)) (ite (> (slen a) 0) (firstb a) (firstb b))) :pattern ((firstb (scat a b))))))
(assert (forall ((a Str) (b Str)) (! (= (lastb (scat a b)) (ite (> (slen b) 0) (lastb b) (lastb a))) :pattern ((lastb (scat a b))))))
(assert (forall ((c Int)) (! (=> (and (<= 0 c) (< c 256)) (and (= (firstb (chr c)) c) (= (lastb (chr c)) c))) :pattern ((chr c)))))
(assert (forall ((s Str)) (! (=> (> (slen s) 0) (and (= (firstb s) (sat s 0)) (= (lastb s) (sat s (- (slen s) 1))))) :pattern ((firstb s)))))
(assert (forall ((s Str)) (! (=> (> (slen s) 0) (= (lastb s) (sat s (- (slen s) 1)))) :pattern ((lastb s)))))
(assert (forall ((a Str) (b Str) (a2 Str) (b2 Str) (c Int)) (! (=> (and (nosep a c) (nosep a2 c) (= (scat a (scat (chr c) b)) (scat a2 (scat (chr c) b2)))) (and (= a a2) (= b b2))) :pattern ((scat a (scat (chr c) b)) (scat a2 (scat (chr c) b2))))))
(assert (forall ((s Str)) (! (= (nlp s 0) 0) :pattern ((nlp s 0)))))
(assert (forall ((s Str) (j Int) (k Int)) (! (=> (and (<= 0 j) (<= j k)) (<= (nlp s j) (nlp s k))) :pattern ((nlp s j) (nlp s k)))))
(assert (forall ((s Str)) (! (>= (qmarks s) 0) :pattern ((qmarks s)))))
(assert (forall ((a Str) (b Str)) (! (= (qmarks (scat a b)) (+ (qmarks a) (qmarks b))) :pattern ((scat a b)))))
(assert (forall ((s Str)) (! (and (>= (slen s) 0) (<= (slen s) 1099511627776)) :pattern ((slen s)))))
(assert (forall ((s Str)) (! (=> (= (slen s) 0) (= s str_empty)) :pattern ((slen s)))))
(assert (forall ((a Str) (b Str)) (! (= (slen (scat a b)) (+ (slen a) (slen b))) :pattern ((scat a b)))))
(assert (forall ((a Str)) (! (= (scat a str_empty) a) :pattern ((scat a str_empty)))))
(assert (forall ((a Str)) (! (= (scat str_empty a) a) :pattern ((scat str_empty a)))))
(assert (forall ((s Str) (i Int) (j Int)) (! (=> (and (<= 0 i) (<= i j) (<= j (slen s))) (= (slen (ssub s i j)) (- j i))) :pattern ((ssub s i j)))))
(assert (forall ((s Str) (i Int)) (! (and (<= 0 (sat s i)) (<= (sat s i) 255)) :pattern ((sat s i)))))
(assert (forall ((s Str)) (! (= (ssub s 0 (slen s)) s) :pattern ((ssub s 0 (slen s))))))
(assert (forall ((s Str) (i Int) (j Int) (k Int)) (! (=> (and (<= 0 i) (<= i j) (<= j (slen s)) (<= 0 k) (< k (- j i))) (= (sat (ssub s i j) k) (sat s (+ i k)))) :pattern ((sat (ssub s i j) k)))))
(assert (forall ((a Str) (b Str) (k Int)) (! (= (sat (scat a b) k) (ite (< k (slen a)) (sat a k) (sat b (- k (slen a))))) :pattern ((sat (scat a b) k)))))
`)
	// string literals
	type kv struct{ k, v string }
	var lits []kv
	for k, v := range e.strLits {
		lits = append(lits, kv{k, v})
	}
	sort.Slice(lits, func(i, j int) bool { return lits[i].v < lits[j].v })
	for _, l := range lits {
		fmt.Fprintf(&b, "(declare-const %s Str) ; %q\n", l.v, truncate(l.k, 60))
		fmt.Fprintf(&b, "(assert (= (slen %s) %d))\n", l.v, len(l.k))
		fmt.Fprintf(&b, "(assert (= (qmarks %s) %d))\n", l.v, strings.Count(l.k, "?"))
		if len(l.k) == 1 {
			fmt.Fprintf(&b, "(assert (= %s (chr %d)))\n", l.v, l.k[0])
		}
		if len(l.k) > 0 {
			fmt.Fprintf(&b, "(assert (and (= (firstb %s) %d) (= (lastb %s) %d)))\n", l.v, l.k[0], l.v, l.k[len(l.k)-1])
		}
		for _, c := range []byte{':', '#', '@', '(', ')'} {
			fmt.Fprintf(&b, "(assert (= (nosep %s %d) %v))\n", l.v, c, !strings.ContainsRune(l.k, rune(c)))
		}
		if len(l.k) <= 24 {
			for i := 0; i < len(l.k); i++ {
				fmt.Fprintf(&b, "(assert (= (sat %s %d) %d))\n", l.v, i, l.k[i])
			}
		}
	}
	// distinctness of literals with same length is implied by bytes for short ones; for
	// longer ones assert pairwise distinctness explicitly.
	for i := range lits {
		for j := i + 1; j < len(lits); j++ {
			if len(lits[i].k) == len(lits[j].k) && len(lits[i].k) > 24 {
				fmt.Fprintf(&b, "(assert (not (= %s %s)))\n", lits[i].v, lits[j].v)
			}
		}
	}
	for _, d := range e.gdecls {
		b.WriteString(d)
		b.WriteString("\n")
	}
	for _, a := range e.gaxioms {
		b.WriteString(a)
		b.WriteString("\n")
	}
	return b.String()
}

func truncate(s string, n int) string {
	s = strings.ReplaceAll(s, "\n", "\\n")
	if len(s) > n {
		return s[:n] + "..."
	}
	return s
}

func (e *Engine) posStr(p token.Pos) string {
	if !p.IsValid() {
		return "-"
	}
	pos := e.fset.Position(p)
	rel, err := filepath.Rel(e.repo, pos.Filename)
	if err != nil {
		rel = pos.Filename
	}
	return fmt.Sprintf("%s:%d", rel, pos.Line)
}

// ---------------------------------------------------------------------------
// loops

type loopInfo struct {
	heads   []*ssa.BasicBlock          // in source order
	ordinal map[*ssa.BasicBlock]int    // 1-based
	body    map[*ssa.BasicBlock]map[*ssa.BasicBlock]bool
}

func (e *Engine) loopsOf(fn *ssa.Function) *loopInfo {
	if li, ok := e.loopInfo[fn]; ok {
		return li
	}
	li := &loopInfo{ordinal: map[*ssa.BasicBlock]int{}, body: map[*ssa.BasicBlock]map[*ssa.BasicBlock]bool{}}
	for _, b := range fn.Blocks {
		for _, s := range b.Succs {
			if s.Dominates(b) {
				// back edge b -> s
				body := li.body[s]
				if body == nil {
					body = map[*ssa.BasicBlock]bool{s: true}
					li.body[s] = body
					li.heads = append(li.heads, s)
				}
				// natural loop: nodes that reach b without passing s
				var stack []*ssa.BasicBlock
				if !body[b] {
					body[b] = true
					stack = append(stack, b)
				}
				for len(stack) > 0 {
					x := stack[len(stack)-1]
					stack = stack[:len(stack)-1]
					for _, p := range x.Preds {
						if !body[p] {
							body[p] = true
							stack = append(stack, p)
						}
					}
				}
			}
		}
	}
	pos := func(b *ssa.BasicBlock) token.Pos {
		best := token.NoPos
		for blk := range li.body[b] {
			for _, in := range blk.Instrs {
				if p := in.Pos(); p.IsValid() && (best == token.NoPos || p < best) {
					best = p
				}
			}
		}
		return best
	}
	sort.SliceStable(li.heads, func(i, j int) bool {
		pi, pj := pos(li.heads[i]), pos(li.heads[j])
		if pi != pj {
			return pi < pj
		}
		return li.heads[i].Index < li.heads[j].Index
	})
	for i, h := range li.heads {
		li.ordinal[h] = i + 1
	}
	e.loopInfo[fn] = li
	return li
}

// resolveFuncTypeKeys rewrites "functype::pkg.TypeName" contract keys (and like
// references) to the canonical signature key of that named or alias function type.
func (e *Engine) resolveFuncTypeKeys() error {
	canon := func(k string, where string) (string, error) {
		if !strings.HasPrefix(k, "functype::") || strings.Contains(k, "func(") {
			return k, nil
		}
		name := strings.TrimPrefix(k, "functype::")
		dot := strings.LastIndex(name, ".")
		if dot < 0 {
			return k, fmt.Errorf("%s: functype needs pkg.Type: %s", where, k)
		}
		pkgName, tname := name[:dot], name[dot+1:]
		for _, p := range e.prog.AllPackages() {
			if p.Pkg.Name() != pkgName || !isRepoPkg(p.Pkg) {
				continue
			}
			if o := p.Pkg.Scope().Lookup(tname); o != nil {
				if tn, ok := o.(*types.TypeName); ok {
					if sig, ok := tn.Type().Underlying().(*types.Signature); ok {
						return sigKey(sig), nil
					}
				}
			}
		}
		return k, fmt.Errorf("%s: cannot resolve function type %s", where, name)
	}
	for i, k := range e.cs.Order {
		nk, err := canon(k, e.cs.Funcs[k].Where)
		if err != nil {
			return err
		}
		if nk != k {
			c := e.cs.Funcs[k]
			delete(e.cs.Funcs, k)
			c.Pkg, c.Name = "functype", strings.TrimPrefix(nk, "functype::")
			e.cs.Funcs[nk] = c
			e.cs.Order[i] = nk
		}
	}
	for _, k := range e.cs.Order {
		c := e.cs.Funcs[k]
		for i, l := range c.Like {
			nl, err := canon(l, c.Where)
			if err != nil {
				return err
			}
			c.Like[i] = nl
		}
		// callsite clauses may name a function type: calls through values of that type
		for _, cs := range c.CallSites {
			nk, err := canon(cs.Callee, cs.Clause.Where)
			if err != nil {
				return err
			}
			cs.Callee = nk
		}
	}
	return nil
}

func (e *Engine) sourceLine(p token.Pos) string {
	pos := e.fset.Position(p)
	if e.srcCache == nil {
		e.srcCache = map[string][]string{}
	}
	ls, ok := e.srcCache[pos.Filename]
	if !ok {
		b, err := os.ReadFile(pos.Filename)
		if err == nil {
			ls = strings.Split(string(b), "\n")
		}
		e.srcCache[pos.Filename] = ls
	}
	if pos.Line >= 1 && pos.Line <= len(ls) {
		return ls[pos.Line-1]
	}
	return ""
}

// sealedImpls: for an interface of a repository package that has an unexported method, the
// dynamic type of a non-nil value is one of the implementers declared in that package.
func (e *Engine) sealedImpls(t types.Type) []types.Type {
	if t == nil {
		return nil
	}
	n, ok := t.(*types.Named)
	if !ok || n.Obj().Pkg() == nil || !isRepoPkg(n.Obj().Pkg()) {
		return nil
	}
	it, ok := n.Underlying().(*types.Interface)
	if !ok {
		return nil
	}
	sealed := false
	for i := 0; i < it.NumMethods(); i++ {
		if !it.Method(i).Exported() {
			sealed = true
		}
	}
	if !sealed {
		return nil
	}
	k := typeKey(t)
	if e.sealedCache == nil {
		e.sealedCache = map[string][]types.Type{}
	}
	if r, ok := e.sealedCache[k]; ok {
		return r
	}
	var out []types.Type
	sc := n.Obj().Pkg().Scope()
	for _, name := range sc.Names() {
		tn, ok := sc.Lookup(name).(*types.TypeName)
		if !ok || tn.IsAlias() {
			continue
		}
		if _, isI := tn.Type().Underlying().(*types.Interface); isI {
			continue
		}
		if types.Implements(tn.Type(), it) {
			out = append(out, tn.Type())
		}
		if pt := types.NewPointer(tn.Type()); types.Implements(pt, it) {
			out = append(out, pt)
		}
	}
	e.sealedCache[k] = out
	return out
}
