#!/bin/bash
# Runs every seeded change under /verif/seeded/<PROP>-<k>/patch.diff against the check of
# its property and prints caught / MISSED. /repo must be clean. usage: run_seeds.sh [PROP ...]
cd /verif
want="$*"
for d in seeded/*/; do
  id=$(basename "$d"); prop=${id%%-*}
  if [ -n "$want" ] && ! echo " $want " | grep -q " $prop "; then continue; fi
  out=$(./selftest/mut.sh "/verif/${d}patch.diff" "$prop" 2>&1)
  if echo "$out" | grep -q "^VIOLATION property=$prop"; then
    ob=$(echo "$out" | grep "^VIOLATION property=$prop" | sed 's/.*obligation=\([^ ]*\).*/\1/' | sort -u | head -3 | tr '\n' ' ')
    echo "caught  $id  by $ob"
  elif echo "$out" | grep -q "TOOL-ERROR\|mut.sh:"; then
    echo "ERROR   $id  $(echo "$out" | grep "TOOL-ERROR\|mut.sh:" | head -1 | cut -c1-160)"
  else
    echo "MISSED  $id"
  fi
done
