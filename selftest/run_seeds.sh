#!/bin/bash
# Runs every seeded change under /verif/seeded/<PROP>-<k>/patch.diff against the check of its
# property and prints caught / MISSED (for a retired seed, seeded/<id>/RETIRED: quiet / FALSE-ALARM). Works on a scratch worktree of /repo's HEAD (created
# under /var/tmp and removed at the end), so /repo itself is not touched.
#   usage: run_seeds.sh [PROP ...]
cd /verif
want="$*"
wt=$(mktemp -d /var/tmp/verif-seedrepo.XXXXXX); rmdir "$wt"
git -C /repo worktree add --detach "$wt" HEAD >/dev/null 2>&1 || { echo "run_seeds: cannot create worktree"; exit 2; }
trap 'git -C /repo worktree remove --force "$wt" >/dev/null 2>&1; git -C /repo worktree prune' EXIT
export VERIF_REPO="$wt"
for d in seeded/*/; do
  id=$(basename "$d"); prop=${id%%-*}
  if [ -n "$want" ] && ! echo " $want " | grep -q " $prop "; then continue; fi
  out=$(./selftest/mut.sh "/verif/${d}patch.diff" "$prop" 2>&1)
  if [ -f "${d}RETIRED" ]; then
    # a change that no longer breaks the property on the current tree: the check must stay quiet
    if echo "$out" | grep -q "^VIOLATION\|TOOL-ERROR\|mut.sh:"; then echo "FALSE-ALARM $id  $(echo "$out" | grep "^VIOLATION\|TOOL-ERROR\|mut.sh:" | head -1 | cut -c1-160)"; else echo "quiet   $id  (retired: behaviour-preserving on the current tree)"; fi
    continue
  fi
  if echo "$out" | grep -q "^VIOLATION property=$prop"; then
    ob=$(echo "$out" | grep "^VIOLATION property=$prop" | sed 's/.*obligation=\([^ ]*\).*/\1/' | sort -u | head -3 | tr '\n' ' ')
    echo "caught  $id  by $ob"
  elif echo "$out" | grep -q "TOOL-ERROR\|mut.sh:"; then
    echo "ERROR   $id  $(echo "$out" | grep "TOOL-ERROR\|mut.sh:" | head -1 | cut -c1-160)"
  else
    echo "MISSED  $id"
  fi
done
