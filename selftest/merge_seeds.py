import re,glob
res={}
order=[]
def load(f):
    for l in open(f):
        m=re.match(r'(caught|MISSED|ERROR|quiet|FALSE-ALARM)\s+(\S+)',l)
        if m:
            res[m.group(2)]=l.rstrip('\n')
for f in sorted(glob.glob('/var/tmp/seeds_fin_*.txt')): load(f)
def key(i):
    a,b=i.split('-'); return (a,int(b))
open('/verif/selftest/last_seed_run.txt','w').write('\n'.join(res[k] for k in sorted(res,key=key))+'\n')
print(len(res), sum(1 for v in res.values() if v.startswith('caught')))
