#!/bin/bash
# Creates a scratch worktree of /repo HEAD at $1 with the verif contract files removed
# (so that whoever works in it sees plain ory/keto). Remove with:
#   git -C /repo worktree remove --force $1
set -eu
dir="$1"
git -C /repo worktree add --detach "$dir" HEAD >/dev/null 2>&1
cd "$dir"
find . \( -name verif_contracts.go -o -name verif_harness.go \) -print0 | xargs -0 -r git rm -q
git -c user.name=builder -c user.email=builder@example.com commit -qm "scratch: plain tree" || true
echo "$dir ready at $(git rev-parse --short HEAD)"
