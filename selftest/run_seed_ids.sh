#!/bin/bash
# Runs the given seeded changes (IDs like C01-7) against the check of their property on a scratch
# worktree of /repo HEAD; prints caught / MISSED. usage: run_seed_ids.sh <ID> ...
cd /verif
wt=/var/tmp/verif-seedrepo.w8$$; git -C /repo worktree add --detach "$wt" HEAD >/dev/null 2>&1
trap 'git -C /repo worktree remove --force "$wt" >/dev/null 2>&1; git -C /repo worktree prune' EXIT
export VERIF_REPO="$wt"
for id in "$@"; do prop=${id%%-*}
  out=$(./selftest/mut.sh /verif/seeded/$id/patch.diff $prop 2>&1)
  if echo "$out" | grep -q "^VIOLATION property=$prop"; then
    ob=$(echo "$out" | grep "^VIOLATION property=$prop" | sed 's/.*obligation=\([^ ]*\).*/\1/' | sort -u | head -3 | tr '\n' ' ')
    echo "caught  $id  by $ob"
  elif echo "$out" | grep -q "TOOL-ERROR\|mut.sh:"; then echo "ERROR   $id  $(echo "$out" | grep "TOOL-ERROR\|mut.sh:" | head -1 | cut -c1-160)"
  else echo "MISSED  $id"; fi
done
