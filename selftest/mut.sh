#!/bin/bash
# Applies a patch to /repo, runs the given checks, and restores /repo.
#   usage: mut.sh <patch.diff> <PROP> [<PROP> ...]
# /repo must be clean (contracts committed) before calling.
set -u
patch="$1"; shift
if [ -n "$(git -C /repo status --porcelain)" ]; then echo "mut.sh: /repo is not clean"; exit 2; fi
git -C /repo apply "$patch" || { echo "mut.sh: patch does not apply"; exit 2; }
rc=0
# evidence/ and replay/ describe the unchanged tree: keep them out of mutant runs
sav=$(mktemp -d /var/tmp/verif-mut.XXXXXX)
cp -a /verif/evidence "$sav/evidence"; [ -d /verif/replay ] && cp -a /verif/replay "$sav/replay"
for p in "$@"; do
  out=$(/verif/check "$p" 2>&1); r=$?
  echo "$out" | grep -E "^(VIOLATION|TOOL-ERROR|KNOWN-FINDING|property=)" | cut -c1-260
  echo "== $p exit=$r"
  [ $r -ne 0 ] && rc=$r
done
git -C /repo checkout -- . ; git -C /repo clean -fdq -- . 2>/dev/null
rm -rf /verif/evidence /verif/replay; mv "$sav/evidence" /verif/evidence; [ -d "$sav/replay" ] && mv "$sav/replay" /verif/replay
rm -rf "$sav"
exit $rc
