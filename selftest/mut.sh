#!/bin/bash
# Applies a patch to a tree of ory/keto, runs the given checks on it, and restores the tree.
#   usage: mut.sh <patch.diff> <PROP> [<PROP> ...]
# The tree is $VERIF_REPO (default /repo; it must be clean, contracts committed). Evidence and
# replay files of the mutant run go to a scratch directory, never to /verif/evidence.
set -u
patch="$1"; shift
REPO="${VERIF_REPO:-/repo}"
if [ -n "$(git -C "$REPO" status --porcelain)" ]; then echo "mut.sh: $REPO is not clean"; exit 2; fi
git -C "$REPO" apply "$patch" || { echo "mut.sh: patch does not apply"; exit 2; }
rc=0
sav=$(mktemp -d /var/tmp/verif-mut.XXXXXX)
for p in "$@"; do
  out=$(VERIF_REPO="$REPO" VERIF_EVIDENCE_DIR="$sav/evidence" VERIF_REPLAY_DIR="$sav/replay" /verif/check "$p" 2>&1); r=$?
  echo "$out" | grep -E "^(VIOLATION|TOOL-ERROR|KNOWN-FINDING|property=)" | cut -c1-420
  echo "== $p exit=$r"
  [ $r -ne 0 ] && rc=$r
done
git -C "$REPO" checkout -- . ; git -C "$REPO" clean -fdq -- . 2>/dev/null
rm -rf "$sav"
exit $rc
