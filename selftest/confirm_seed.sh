#!/bin/bash
# Confirms one seeded change: the demonstration passes on the unchanged tree and fails with the
# patch, the patched tree builds, and every baseline test (stable_pass of /root/.vp/BASELINE.json)
# of the packages the patch touches still passes. /repo is restored afterwards.
#   usage: confirm_seed.sh <ID>      (seeded/<ID>/patch.diff, demo_test.go)
set -u
export GOFLAGS=-mod=mod GOPROXY=off
id="$1"; d=/verif/seeded/$id
[ -n "$(git -C /repo status --porcelain)" ] && { echo "confirm: /repo not clean"; exit 2; }
pk=$(grep -m1 '^package' $d/demo_test.go | awk '{print $2}')
case "$pk" in
  relationtuple_test|relationtuple) dir=internal/relationtuple;;
  expand_test|expand) dir=internal/expand;;
  sql_test|sql) dir=internal/persistence/sql;;
  schema|schema_test) dir=internal/schema;;
  check_test|check) dir=internal/check;;
  config|config_test) dir=internal/driver/config;;
  ketoapi|ketoapi_test) dir=ketoapi;;
  *) echo "confirm: unknown demo package $pk"; exit 2;;
esac
tmp=$(mktemp -d); trap 'rm -rf "$tmp"; git -C /repo checkout -- . ; git -C /repo clean -fdq' EXIT
echo "{\"Replace\": {\"/repo/$dir/zz_seed_demo_test.go\": \"$d/demo_test.go\"}}" > $tmp/ov.json
rundemo(){ (cd /repo && go test -tags sqlite -overlay $tmp/ov.json -vet=off -count=1 -timeout 600s -run 'TestC[0-9]+|TestDemo|TestSeeded' ./$dir/ 2>&1 | grep -v '^time=' | tail -4 | grep -q '^ok' && echo pass || echo FAIL); }
before=$(rundemo)
git -C /repo apply $d/patch.diff || { echo "confirm: patch does not apply"; exit 2; }
build=ok; (cd /repo && go build ./... 2>&1 | head -3) | grep -q . && build=BROKEN
after=$(rundemo)
pkgs=$(git -C /repo diff --name-only | xargs -n1 dirname | sort -u | sed 's#^#./#' | tr '\n' ' ')
res=$(cd /repo && go test -json -vet=off -count=1 -timeout 900s $pkgs 2>/dev/null | python3 -c "
import json,sys
stable=set(json.load(open('/root/.vp/BASELINE.json'))['stable_pass'])
st={}
for l in sys.stdin:
    try: e=json.loads(l)
    except Exception: continue
    if e.get('Test') and e.get('Action') in ('pass','fail','skip'):
        st[e['Package']+'::'+e['Test']]=e['Action']
bad=[k for k,v in st.items() if k in stable and v!='pass']
ran=[k for k in st if k in stable]
print('baseline-tests-run=%d regressions=%d %s'%(len(ran),len(bad),' '.join(bad[:3])))")
echo "$id demo-before=$before demo-after=$after build=$build $res pkgs=$pkgs"
