#!/usr/bin/env python3
"""Rewrites the seed table of DESIGN.md §8 from selftest/last_seed_run.txt and seeded/*/meta.json.
Only the lines between '| Seed | Change | Result | Caught by |' and the first blank line after
the table are replaced, and the 'N of M caught' count in the paragraph above it."""
import json, re, sys
root = '/verif'
rows, n, c = [], 0, 0
for l in open(root + '/selftest/last_seed_run.txt'):
    m = re.match(r'(caught|MISSED|ERROR|quiet|FALSE-ALARM)\s+(\S+)\s*(?:by (.*))?', l.strip())
    if not m:
        continue
    st, sid, by = m.group(1), m.group(2), (m.group(3) or '').strip()
    if st in ('quiet', 'FALSE-ALARM'):
        by = ''
        st = st + ' (retired seed: must not alarm)'
    else:
        n += 1
        c += st == 'caught'
    meta = {}
    try:
        meta = json.load(open('%s/seeded/%s/meta.json' % (root, sid)))
    except Exception:
        pass
    summ = (meta.get('summary') or meta.get('description') or '').replace('|', '\\|').replace('\n', ' ')
    if len(summ) > 150:
        summ = summ[:147] + '...'
    by = ' '.join('`%s`' % b for b in by.split()[:2])
    rows.append('| %s | %s | %s | %s |' % (sid, summ, st, by))
p = root + '/DESIGN.md'
s = open(p).read()
head = '| Seed | Change | Result | Caught by |\n|---|---|---|---|\n'
i = s.index(head) + len(head)
j = s.index('\n\n', i)
s = s[:i] + '\n'.join(rows) + s[j:]
s = re.sub(r'\*\*\d+ of \d+ caught\*\*', '**%d of %d caught**' % (c, n), s, count=1)
open(p, 'w').write(s)
print('%d of %d caught' % (c, n))
