// Replay of the C01 defect (one visited set shared by the operands of && below a subject-set
// expansion). Injected into package check_test by /verif/findings/run.sh c01.
package check_test

import (
	"context"
	"testing"

	"github.com/ory/keto/internal/check"
	"github.com/ory/keto/internal/check/checkgroup"
	"github.com/ory/keto/internal/driver"
	"github.com/ory/keto/internal/driver/config"
	"github.com/ory/keto/internal/namespace"
	"github.com/ory/keto/internal/relationtuple"
	"github.com/ory/keto/internal/schema"
	"github.com/ory/keto/ketoapi"
)

const vc01OPL = `
import { Namespace, SubjectSet, Context } from "@ory/keto-namespace-types"

class User implements Namespace {}
class Group implements Namespace {
  related: { members: (User | SubjectSet<Group, "members">)[] }
}
class Doc implements Namespace {
  related: {
    viewers: (User | SubjectSet<Group, "members">)[]
    editors: (User | SubjectSet<Group, "members">)[]
  }
  permits = {
    publish: (ctx: Context): boolean =>
      this.related.viewers.includes(ctx.subject) && this.related.editors.includes(ctx.subject),
  }
}
class Folder implements Namespace {
  related: { access: (User | SubjectSet<Doc, "publish">)[] }
}
`

// alice is a member of Group:core, which is a member of Group:staff, which is both viewer and editor of Doc:d, so alice may
// publish Doc:d (the engine agrees when asked directly). Folder:f#access contains the subject
// set Doc:d#publish, so by subject-set indirection alice has Folder:f#access. Below the
// expansion of Folder:f#access the two operands of && inherit ONE visited set: the first
// operand marks Group:staff#members as visited, the second skips it and answers "not a member".
func TestVerifC01VisitedSetSharedByAndOperands(t *testing.T) {
	ctx, cancel := context.WithCancel(context.Background())
	defer cancel()
	nss, errs := schema.Parse(vc01OPL)
	if len(errs) != 0 {
		t.Fatalf("OPL rejected: %v", errs)
	}
	reg := driver.NewSqliteTestRegistry(t, false)
	var cfg []*namespace.Namespace
	for i := range nss {
		n := nss[i]
		cfg = append(cfg, &n)
	}
	if err := reg.Config(ctx).Set(config.KeyNamespaces, cfg); err != nil {
		t.Fatal(err)
	}
	// the depth limit must not be what decides the answer
	if err := reg.Config(ctx).Set(config.KeyLimitMaxReadDepth, 100); err != nil {
		t.Fatal(err)
	}
	alice := "alice"
	staff := &ketoapi.SubjectSet{Namespace: "Group", Object: "staff", Relation: "members"}
	relationtuple.MapAndWriteTuples(t, reg,
		&ketoapi.RelationTuple{Namespace: "Group", Object: "core", Relation: "members", SubjectID: &alice},
		&ketoapi.RelationTuple{Namespace: "Group", Object: "staff", Relation: "members",
			SubjectSet: &ketoapi.SubjectSet{Namespace: "Group", Object: "core", Relation: "members"}},
		&ketoapi.RelationTuple{Namespace: "Doc", Object: "d", Relation: "viewers", SubjectSet: staff},
		&ketoapi.RelationTuple{Namespace: "Doc", Object: "d", Relation: "editors", SubjectSet: staff},
		&ketoapi.RelationTuple{Namespace: "Folder", Object: "f", Relation: "access",
			SubjectSet: &ketoapi.SubjectSet{Namespace: "Doc", Object: "d", Relation: "publish"}},
	)
	ask := func(ns, obj, rel string) checkgroup.Result {
		it, err := reg.Mapper().FromTuple(ctx, &ketoapi.RelationTuple{Namespace: ns, Object: obj, Relation: rel, SubjectID: &alice})
		if err != nil {
			t.Fatal(err)
		}
		return check.NewEngine(reg).CheckRelationTuple(ctx, it[0], 0)
	}
	if r := ask("Doc", "d", "publish"); r.Err != nil || r.Membership != checkgroup.IsMember {
		t.Fatalf("precondition: Doc:d#publish@alice should be allowed, got %+v", r)
	}
	if r := ask("Folder", "f", "access"); r.Err != nil || r.Membership != checkgroup.IsMember {
		t.Fatalf("DEFECT: Doc:d#publish@alice is allowed and Folder:f#access contains the subject set Doc:d#publish, but Folder:f#access@alice is answered %v (err %v)", r.Membership, r.Err)
	}
}
