#!/bin/bash
# Runs the finding replays against the real code in /repo (working tree) through a
# go test overlay; nothing is written into /repo.  usage: run.sh check [-run regex]
set -u
export GOFLAGS=-mod=mod GOPROXY=off
which="${1:-check}"; shift || true
here="$(cd "$(dirname "$0")" && pwd)"
tmp="$(mktemp -d)"; trap 'rm -rf "$tmp"' EXIT
case "$which" in
  check) pkg=internal/check; src=check_findings_test.go;;
  expand) pkg=internal/expand; src=expand_findings_test.go;;
  relationtuple) pkg=internal/relationtuple; src=relationtuple_findings_test.go;;
  c11) pkg=internal/check; src=c11_findings_test.go;;
  c01) pkg=internal/check; src=c01_findings_test.go;;
  c19) pkg=internal/driver/config; src=c19_findings_test.go;;
  *) echo "unknown replay set $which"; exit 2;;
esac
cat > "$tmp/ov.json" <<EOT
{"Replace": {"/repo/$pkg/zz_verif_findings_test.go": "$here/$src"}}
EOT
cd /repo && go test -tags sqlite -overlay "$tmp/ov.json" -vet=off -count=1 -timeout 300s -run 'TestVerif' "$@" ./$pkg/
