// Replay of the C11 defect (type checker and engine disagree about traverse through a
// SubjectSet-typed relation). Injected into package check_test by /verif/findings/run.sh c11.
package check_test

import (
	"context"
	"testing"

	"github.com/ory/keto/internal/check"
	"github.com/ory/keto/internal/driver"
	"github.com/ory/keto/internal/driver/config"
	"github.com/ory/keto/internal/namespace"
	"github.com/ory/keto/internal/relationtuple"
	"github.com/ory/keto/internal/schema"
	"github.com/ory/keto/ketoapi"
)

const vc11OPL = `
import { Namespace, SubjectSet, Context } from "@ory/keto-namespace-types"

class User implements Namespace {
  related: { manager: User[] }
  permits = { isAllowed: (ctx: Context): boolean => this.related.manager.includes(ctx.subject) }
}
class Group implements Namespace {
  related: { members: User[] }
}
class Doc implements Namespace {
  related: { viewers: SubjectSet<Group, "members">[] }
  permits = {
    view: (ctx: Context): boolean => this.related.viewers.traverse((v) => v.permits.isAllowed(ctx)),
  }
}
`

// C11: the document is accepted without errors, the stored relationship conforms to the
// declared type of Doc.viewers, and the check on the declared permission Doc#view must not
// fail with a schema error.
func TestVerifC11AcceptedConfigFailsAtCheckTime(t *testing.T) {
	ctx := context.Background()
	nss, errs := schema.Parse(vc11OPL)
	if len(errs) != 0 {
		t.Fatalf("the OPL document is expected to be accepted, got %v", errs)
	}
	reg := driver.NewSqliteTestRegistry(t, false)
	var cfg []*namespace.Namespace
	for i := range nss {
		n := nss[i]
		cfg = append(cfg, &n)
	}
	if err := reg.Config(ctx).Set(config.KeyNamespaces, cfg); err != nil {
		t.Fatal(err)
	}
	relationtuple.MapAndWriteTuples(t, reg,
		&ketoapi.RelationTuple{Namespace: "Doc", Object: "d", Relation: "viewers",
			SubjectSet: &ketoapi.SubjectSet{Namespace: "Group", Object: "g", Relation: "members"}},
	)
	u := "u"
	q := &ketoapi.RelationTuple{Namespace: "Doc", Object: "d", Relation: "view", SubjectID: &u}
	it, err := reg.Mapper().FromTuple(ctx, q)
	if err != nil {
		t.Fatal(err)
	}
	res := check.NewEngine(reg).CheckRelationTuple(ctx, it[0], 0)
	if res.Err != nil {
		t.Fatalf("DEFECT: OPL accepted by the type checker, tuple Doc:d#viewers@Group:g#members conforms to SubjectSet<Group,\"members\">, but the check Doc:d#view@u fails with: %v", res.Err)
	}
}
