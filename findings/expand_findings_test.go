// Replays of the genuine defects reported for the expand transports (package expand_test).
package expand_test

import (
	"context"
	"testing"

	"github.com/ory/keto/internal/driver"
	"github.com/ory/keto/internal/expand"
	rts "github.com/ory/keto/proto/ory/keto/relation_tuples/v1alpha2"
)

// C13 obligations (*handler).Expand/nil and (*handler).Expand/pre@(*Mapper).FromSubjectSet.set-present
func TestVerifC13ExpandWithoutSubjectPanics(t *testing.T) {
	reg := driver.NewSqliteTestRegistry(t, false)
	h := expand.NewHandler(reg)
	for name, req := range map[string]*rts.ExpandRequest{
		"no subject":    {},
		"empty subject": {Subject: &rts.Subject{}},
	} {
		func() {
			defer func() {
				if r := recover(); r != nil {
					t.Errorf("DEFECT: Expand panicked on a request with %s: %v", name, r)
				}
			}()
			_, _ = h.Expand(context.Background(), req)
		}()
	}
}
