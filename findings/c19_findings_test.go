// Replay of the C19 defect (OPL watcher re-reads consumed readers). Injected into package
// config by /verif/findings/run.sh c19.
package config

import (
	"context"
	"os"
	"path/filepath"
	"sort"
	"testing"

	"github.com/ory/x/logrusx"
)

const vc19A = `class Alpha implements Namespace {}`
const vc19B = `class Beta implements Namespace {}`

func vc19Names(t *testing.T, nw *oplConfigWatcher) []string {
	nn, err := nw.Namespaces(context.Background())
	if err != nil {
		t.Fatal(err)
	}
	var out []string
	for _, n := range nn {
		out = append(out, n.Name)
	}
	sort.Strings(out)
	return out
}

// C19: after the initial load of a watched directory with two valid OPL files, the visible
// namespaces must be those of one valid version of EACH file ("never part of a version ...
// never nothing once a valid version has been loaded").
func TestVerifC19SecondFileWipesTheFirst(t *testing.T) {
	dir := t.TempDir()
	if err := os.WriteFile(filepath.Join(dir, "a.ts"), []byte(vc19A), 0o600); err != nil {
		t.Fatal(err)
	}
	if err := os.WriteFile(filepath.Join(dir, "b.ts"), []byte(vc19B), 0o600); err != nil {
		t.Fatal(err)
	}
	ctx, cancel := context.WithCancel(context.Background())
	defer cancel()
	nw, err := newOPLConfigWatcher(ctx, &Config{l: logrusx.New("verif", "test")}, dir)
	if err != nil {
		t.Fatal(err)
	}
	got := vc19Names(t, nw)
	if len(got) != 2 || got[0] != "Alpha" || got[1] != "Beta" {
		t.Fatalf("DEFECT: directory with a.ts (class Alpha) and b.ts (class Beta), both valid: visible namespaces after the initial load are %v, want [Alpha Beta]", got)
	}
}
