// Replay of the C19 defect (OPL watcher re-reads consumed readers). Injected into package
// config by /verif/findings/run.sh c19.
package config

import (
	"context"
	"os"
	"path/filepath"
	"sort"
	"strings"
	"testing"

	"github.com/ory/x/logrusx"
)

const vc19A = `class Alpha implements Namespace {}`
const vc19B = `class Beta implements Namespace {}`

func vc19Names(t *testing.T, nw *oplConfigWatcher) []string {
	nn, err := nw.Namespaces(context.Background())
	if err != nil {
		t.Fatal(err)
	}
	var out []string
	for _, n := range nn {
		out = append(out, n.Name)
	}
	sort.Strings(out)
	return out
}

// C19: after the initial load of a watched directory with two valid OPL files, the visible
// namespaces must be those of one valid version of EACH file ("never part of a version ...
// never nothing once a valid version has been loaded").
func TestVerifC19SecondFileWipesTheFirst(t *testing.T) {
	dir := t.TempDir()
	if err := os.WriteFile(filepath.Join(dir, "a.ts"), []byte(vc19A), 0o600); err != nil {
		t.Fatal(err)
	}
	if err := os.WriteFile(filepath.Join(dir, "b.ts"), []byte(vc19B), 0o600); err != nil {
		t.Fatal(err)
	}
	ctx, cancel := context.WithCancel(context.Background())
	defer cancel()
	nw, err := newOPLConfigWatcher(ctx, &Config{l: logrusx.New("verif", "test")}, dir)
	if err != nil {
		t.Fatal(err)
	}
	got := vc19Names(t, nw)
	if len(got) != 2 || got[0] != "Alpha" || got[1] != "Beta" {
		t.Fatalf("DEFECT: directory with a.ts (class Alpha) and b.ts (class Beta), both valid: visible namespaces after the initial load are %v, want [Alpha Beta]", got)
	}
}

// Observation (not an obligation of the C19 check, see DESIGN.md §6 by-products): the OPL watcher
// replaces the visible namespaces only when EVERY watched file parses. While one file is invalid,
// (1) a valid new version of another file does not take effect and (2) a removed file stays visible.
func TestVerifC19ObservationOneInvalidFileBlocksTheOthers(t *testing.T) {
	dir := t.TempDir()
	write := func(name, content string) {
		if err := os.WriteFile(filepath.Join(dir, name), []byte(content), 0o600); err != nil {
			t.Fatal(err)
		}
	}
	write("a.ts", vc19A)
	write("b.ts", vc19B)
	ctx, cancel := context.WithCancel(context.Background())
	defer cancel()
	nw, err := newOPLConfigWatcher(ctx, &Config{l: logrusx.New("verif", "test")}, dir)
	if err != nil {
		t.Fatal(err)
	}
	if got := vc19Names(t, nw); len(got) != 2 {
		t.Fatalf("setup: want [Alpha Beta], got %v", got)
	}
	// a.ts becomes invalid: last good version of a.ts stays (fine)
	nw.files.Lock()
	nw.files.byPath[filepath.Join(dir, "a.ts")] = strings.NewReader("class Alpha implements Namespace {")
	nw.parseFiles()
	nw.files.Unlock()
	// b.ts gets a new valid version: class Gamma instead of Beta
	nw.files.Lock()
	nw.files.byPath[filepath.Join(dir, "b.ts")] = strings.NewReader("class Gamma implements Namespace {}")
	nw.parseFiles()
	nw.files.Unlock()
	got := vc19Names(t, nw)
	t.Logf("after a.ts turned invalid and b.ts changed to a valid new version: %v (per-file keep-last-good would give [Alpha Gamma])", got)
	if len(got) == 2 && got[0] == "Alpha" && got[1] == "Gamma" {
		return
	}
	t.Errorf("OBSERVATION: the valid new version of b.ts did not take effect while a.ts is invalid: %v", got)
}
