// Replays of the genuine defects that the C02/C03/C15 obligations report.
// Injected into package check_test with `go test -overlay` (never committed to /repo):
//   /verif/findings/run.sh check
package check_test

import (
	"context"
	"errors"
	"fmt"
	"os"
	"os/exec"
	"runtime"
	"strings"
	"testing"
	"time"

	"github.com/ory/keto/internal/check"
	"github.com/ory/keto/internal/check/checkgroup"
	"github.com/ory/keto/internal/driver"
	"github.com/ory/keto/ketoapi"
	rts "github.com/ory/keto/proto/ory/keto/relation_tuples/v1alpha2"
	"github.com/ory/keto/internal/namespace"
	"github.com/ory/keto/internal/namespace/ast"
	"github.com/ory/keto/internal/relationtuple"
	"github.com/ory/keto/internal/x"
)

type vfManager struct {
	relationtuple.Manager
	failExists, failGet bool
}

var errBoom = errors.New("verif: injected storage failure")

func (m *vfManager) ExistsRelationTuples(ctx context.Context, q *relationtuple.RelationQuery) (bool, error) {
	if m.failExists {
		return false, errBoom
	}
	return m.Manager.ExistsRelationTuples(ctx, q)
}
func (m *vfManager) GetRelationTuples(ctx context.Context, q *relationtuple.RelationQuery, o ...x.PaginationOptionSetter) ([]*relationtuple.RelationTuple, string, error) {
	if m.failGet {
		return nil, "", errBoom
	}
	return m.Manager.GetRelationTuples(ctx, q, o...)
}

type vfTraverser struct {
	relationtuple.Traverser
	fail bool
}

func (t *vfTraverser) TraverseSubjectSetExpansion(ctx context.Context, r *relationtuple.RelationTuple) ([]*relationtuple.TraversalResult, error) {
	if t.fail {
		return nil, errBoom
	}
	return t.Traverser.TraverseSubjectSetExpansion(ctx, r)
}

type vfDeps struct {
	*deps
	m *vfManager
	t *vfTraverser
}

func (d *vfDeps) RelationTupleManager() relationtuple.Manager { return d.m }
func (d *vfDeps) Traverser() relationtuple.Traverser         { return d.t }

func vfSetup(t *testing.T, rels []ast.Relation, tuples []string) (*vfDeps, *check.Engine) {
	reg := newDepsProvider(t, []*namespace.Namespace{{Name: "d", Relations: rels}})
	insertFixtures(t, reg.RelationTupleManager(), tuples)
	d := &vfDeps{deps: reg, m: &vfManager{Manager: reg.RelationTupleManager()}, t: &vfTraverser{Traverser: reg.Traverser()}}
	return d, check.NewEngine(d)
}

func not(c ast.Child) *ast.SubjectSetRewrite {
	return &ast.SubjectSetRewrite{Children: ast.Children{&ast.InvertResult{Child: c}}}
}
func css(r string) *ast.ComputedSubjectSet { return &ast.ComputedSubjectSet{Relation: r} }

// C03 obligation (*Engine).checkDirect$1/post.err-propagates
func TestVerifC03DirectLookupErrorBecomesAllowed(t *testing.T) {
	d, e := vfSetup(t, []ast.Relation{{Name: "a"}, {Name: "m", SubjectSetRewrite: not(css("a"))}}, []string{"d:o#a@u"})
	q := tupleFromString(t, "d:o#m@u")
	healthy := e.CheckRelationTuple(context.Background(), q, 0)
	if healthy.Err != nil || healthy.Membership != checkgroup.NotMember {
		t.Fatalf("fault-free answer should be denied, got %+v", healthy)
	}
	d.m.failExists = true
	faulty := e.CheckRelationTuple(context.Background(), q, 0)
	if faulty.Err == nil && faulty.Membership == checkgroup.IsMember {
		t.Fatalf("DEFECT: storage failure turned a denied request into allowed without error: %+v", faulty)
	}
}

// C03 obligation (*Engine).checkInverted$1/chan-inv
func TestVerifC03ErrorResultSaysAllowed(t *testing.T) {
	and := &ast.SubjectSetRewrite{Operation: ast.OperatorAnd, Children: ast.Children{css("a"), css("b")}}
	d, e := vfSetup(t, []ast.Relation{{Name: "a"}, {Name: "b"}, {Name: "m", SubjectSetRewrite: not(and)}}, nil)
	d.t.fail = true
	res := e.CheckRelationTuple(context.Background(), tupleFromString(t, "d:o#m@u"), 0)
	if res.Err != nil && res.Membership == checkgroup.IsMember {
		t.Fatalf("DEFECT: an answer that carries an error also says allowed: %+v", res)
	}
}

// C15 obligation (*Engine).checkTupleToSubjectSet$1/post.send-once
func TestVerifC15ListingErrorNeverReturns(t *testing.T) {
	ttu := &ast.SubjectSetRewrite{Children: ast.Children{&ast.TupleToSubjectSet{Relation: "parent", ComputedSubjectSetRelation: "a"}}}
	d, e := vfSetup(t, []ast.Relation{{Name: "a"}, {Name: "parent"}, {Name: "m", SubjectSetRewrite: ttu}}, nil)
	d.m.failGet = true
	done := make(chan checkgroup.Result, 1)
	go func() { done <- e.CheckRelationTuple(context.Background(), tupleFromString(t, "d:o#m@u"), 0) }()
	select {
	case <-done:
	case <-time.After(3 * time.Second):
		t.Fatalf("DEFECT: the check did not return within 3s after a failing listing call (no result is ever sent)")
	}
}

// C15 obligations (*Engine).CheckRelationTuple/chan-abandon, (*Engine).checkInverted$1/chan-abandon
func TestVerifC15CancelledCheckLeaksGoroutine(t *testing.T) {
	_, e := vfSetup(t, []ast.Relation{{Name: "a"}, {Name: "m", SubjectSetRewrite: not(css("a"))}}, []string{"d:o#a@u"})
	q := tupleFromString(t, "d:o#m@u")
	time.Sleep(200 * time.Millisecond)
	before := runtime.NumGoroutine()
	for i := 0; i < 40; i++ {
		ctx, cancel := context.WithCancel(context.Background())
		cancel()
		_ = e.CheckRelationTuple(ctx, q, 0)
	}
	time.Sleep(time.Second)
	after := runtime.NumGoroutine()
	if after-before >= 20 {
		t.Fatalf("DEFECT: %d goroutines remain after 40 cancelled checks (before %d, after %d)", after-before, before, after)
	}
}

// C02 obligations or/post.sound-notmember, and/post.sound-notmember
func TestVerifC02DepthLimitTurnsDeniedIntoAllowed(t *testing.T) {
	and := &ast.SubjectSetRewrite{Operation: ast.OperatorAnd, Children: ast.Children{css("a"), css("a")}}
	_, e := vfSetup(t, []ast.Relation{{Name: "a"}, {Name: "n", SubjectSetRewrite: not(and)}}, []string{"d:o#a@u"})
	q := tupleFromString(t, "d:o#n@u")
	unbounded := e.CheckRelationTuple(context.Background(), q, 5)
	if unbounded.Membership == checkgroup.IsMember {
		t.Fatalf("setup: expected denied with enough depth, got %+v", unbounded)
	}
	for depth := 1; depth <= 4; depth++ {
		res := e.CheckRelationTuple(context.Background(), q, depth)
		if res.Err == nil && res.Membership == checkgroup.IsMember {
			t.Fatalf("DEFECT: allowed at max-depth %d but denied by the unbounded semantics", depth)
		}
	}
}

// C15 obligation (*Engine).checkComputedSubjectSet/dec@(*Engine).checkIsAllowed:
// a permission that refers to itself through a computed subject set recurses eagerly at
// the same depth until the goroutine stack overflows (fatal: the whole process dies).
// The crash is observed in a child process.
func TestVerifC15SelfReferentialPermissionOverflowsStack(t *testing.T) {
	if os.Getenv("VERIF_CHILD") == "1" {
		and := &ast.SubjectSetRewrite{Operation: ast.OperatorAnd, Children: ast.Children{css("a"), css("a")}}
		_, e := vfSetup(t, []ast.Relation{{Name: "a", SubjectSetRewrite: and}}, nil)
		ctx, cancel := context.WithCancel(context.Background())
		res := e.CheckRelationTuple(ctx, tupleFromString(t, "d:o#a@u"), 3)
		cancel()
		time.Sleep(300 * time.Millisecond)
		fmt.Printf("CHILD-RETURNED %v\n", res.Membership)
		return
	}
	cmd := exec.Command(os.Args[0], "-test.run=^TestVerifC15SelfReferentialPermissionOverflowsStack$", "-test.timeout=120s")
	cmd.Env = append(os.Environ(), "VERIF_CHILD=1")
	out, err := cmd.CombinedOutput()
	_ = err
	if !strings.Contains(string(out), "CHILD-RETURNED") {
		tail := string(out)
		if i := strings.Index(tail, "goroutine stack exceeds"); i >= 0 {
			tail = tail[i:]
			if len(tail) > 200 {
				tail = tail[:200]
			}
		} else if len(tail) > 400 {
			tail = tail[len(tail)-400:]
		}
		t.Fatalf("DEFECT: a check at max-depth 3 on a self-referential permission killed the process: %v\n%s", err, tail)
	}
}

// C13 obligation (*Handler).BatchCheck/pre@(*RelationTuple).FromProto.subject-present:
// a gRPC batch entry without a subject makes the handler panic (nil dereference).
func TestVerifC13GRPCBatchCheckWithoutSubjectPanics(t *testing.T) {
	reg := driver.NewSqliteTestRegistry(t, false)
	h := check.NewHandler(reg)
	defer func() {
		if r := recover(); r != nil {
			t.Fatalf("DEFECT: BatchCheck panicked on an entry without subject: %v", r)
		}
	}()
	resp, err := h.BatchCheck(context.Background(), &rts.BatchCheckRequest{Tuples: []*rts.RelationTuple{{Namespace: "n", Object: "o", Relation: "r"}}})
	if err == nil && (len(resp.Results) != 1 || resp.Results[0].Allowed) {
		t.Fatalf("unexpected answer %+v", resp)
	}
}

// C13 obligation (*Handler).doBatchCheck/pre@(*Engine).BatchCheck.no-nil-tuple:
// POST /relation-tuples/batch/check with {"tuples":[null]} dereferences nil inside an errgroup
// worker goroutine, outside any recovery: the server process exits. Observed in a child process.
func TestVerifC13BatchCheckNullTupleKillsProcess(t *testing.T) {
	if os.Getenv("VERIF_CHILD") == "2" {
		reg := driver.NewSqliteTestRegistry(t, false)
		res, err := reg.PermissionEngine().BatchCheck(context.Background(), []*ketoapi.RelationTuple{nil}, 0)
		fmt.Printf("CHILD-RETURNED %v %v\n", len(res), err)
		return
	}
	cmd := exec.Command(os.Args[0], "-test.run=^TestVerifC13BatchCheckNullTupleKillsProcess$", "-test.timeout=120s")
	cmd.Env = append(os.Environ(), "VERIF_CHILD=2")
	out, _ := cmd.CombinedOutput()
	if !strings.Contains(string(out), "CHILD-RETURNED") {
		tail := string(out)
		if i := strings.Index(tail, "panic:"); i >= 0 {
			tail = tail[i:]
		}
		if len(tail) > 300 {
			tail = tail[:300]
		}
		t.Fatalf("DEFECT: a batch check with a null tuple killed the process:\n%s", tail)
	}
}

// C02 (width): obligation (*Engine).checkExpandSubject$1/loop-step... truncated-expansion-is-not-a-denial.
// More subject sets than max_read_width are silently cut off; the answer of the truncated
// expansion is NotMember, which '!' turns into allowed. With the limit lowered the request
// is allowed, with the default limit it is denied: the limit does not fail closed.
func TestVerifC02WidthLimitTurnsDeniedIntoAllowed(t *testing.T) {
	ctx := context.Background()
	rels := []ast.Relation{{Name: "blocked"}, {Name: "m"}, {Name: "allow", SubjectSetRewrite: not(css("blocked"))}}
	var tuples []string
	for _, doc := range []string{"doc1", "doc2", "doc3"} {
		for g := 1; g <= 12; g++ {
			tuples = append(tuples, fmt.Sprintf("d:%s#blocked@(d:%s-g%d#m)", doc, doc, g))
			tuples = append(tuples, fmt.Sprintf("d:%s-g%d#m@(d:%s-h%d#m)", doc, g, doc, g))
		}
		// mallory is blocked through exactly one of the twelve groups
		tuples = append(tuples, fmt.Sprintf("d:%s-h7#m@mallory", doc))
	}
	d, e := vfSetup(t, rels, tuples)
	for _, doc := range []string{"doc1", "doc2", "doc3"} {
		q := tupleFromString(t, "d:"+doc+"#allow@mallory")
		if err := d.Config(ctx).Set("limit.max_read_width", 100); err != nil {
			t.Fatal(err)
		}
		wide := e.CheckRelationTuple(ctx, q, 0)
		if wide.Err != nil || wide.Membership == checkgroup.IsMember {
			t.Fatalf("setup: with width 100 mallory is blocked, so allow must be denied; got %+v", wide)
		}
		if err := d.Config(ctx).Set("limit.max_read_width", 2); err != nil {
			t.Fatal(err)
		}
		narrow := e.CheckRelationTuple(ctx, q, 0)
		if narrow.Err == nil && narrow.Membership == checkgroup.IsMember {
			t.Fatalf("DEFECT: d:%s#allow@mallory is denied with max_read_width=100 and allowed with max_read_width=2 (the expansion of d:%s#blocked was cut to one of twelve subject sets and answered NotMember)", doc, doc)
		}
	}
}
