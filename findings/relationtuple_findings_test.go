// Replays of the genuine defects reported for the relationship API handlers (package relationtuple_test).
package relationtuple_test

import (
	"context"
	"net/http"
	"net/http/httptest"
	"strings"
	"testing"

	"github.com/julienschmidt/httprouter"
	"google.golang.org/grpc/codes"
	"google.golang.org/grpc/status"

	"github.com/ory/keto/internal/driver"
	"github.com/ory/keto/internal/driver/config"
	"github.com/ory/keto/internal/namespace"
	"github.com/ory/keto/internal/relationtuple"
	"github.com/ory/keto/internal/x"
	"github.com/ory/keto/ketoapi"
	rts "github.com/ory/keto/proto/ory/keto/relation_tuples/v1alpha2"
)

func vfServe(t *testing.T, h http.Handler, method, target, body string) (code int, panicked any) {
	defer func() { panicked = recover() }()
	rec := httptest.NewRecorder()
	h.ServeHTTP(rec, httptest.NewRequest(method, target, strings.NewReader(body)))
	return rec.Code, nil
}

// C13 obligations (*handler).patchRelationTuples/nil and .../pre@internalTuplesWithAction.no-nil-delta
func TestVerifC13PatchWithNullDeltaPanics(t *testing.T) {
	reg := driver.NewSqliteTestRegistry(t, false)
	r := httprouter.New()
	relationtuple.NewHandler(reg).RegisterWriteRoutes(&x.WriteRouter{Router: r})
	code, p := vfServe(t, r, http.MethodPatch, relationtuple.WriteRouteBase, `[null]`)
	if p != nil {
		t.Fatalf("DEFECT: PATCH %s with body [null] made the handler panic: %v", relationtuple.WriteRouteBase, p)
	}
	if code < 400 || code >= 500 {
		t.Fatalf("DEFECT: PATCH with a null delta answered %d, want a 4xx", code)
	}
}

// C13/C07 obligations (*handler).getRelations/pre@WithSize.nonneg-size and (*handler).ListRelationTuples/pre@WithSize.nonneg-size
func TestVerifC13NegativePageSize(t *testing.T) {
	ctx := context.Background()
	reg := driver.NewSqliteTestRegistry(t, false)
	if err := reg.Config(ctx).Set(config.KeyNamespaces, []*namespace.Namespace{{Name: "n"}}); err != nil {
		t.Fatal(err)
	}
	sid := "s"
	relationtuple.MapAndWriteTuples(t, reg, &ketoapi.RelationTuple{Namespace: "n", Object: "o", Relation: "r", SubjectID: &sid})
	r := httprouter.New()
	h := relationtuple.NewHandler(reg)
	h.RegisterReadRoutes(&x.ReadRouter{Router: r})
	code, p := vfServe(t, r, http.MethodGet, relationtuple.ReadRouteBase+"?namespace=n&page_size=-3", "")
	if p != nil {
		t.Errorf("DEFECT: GET %s?namespace=n&page_size=-3 (one stored tuple) made the handler panic: %v", relationtuple.ReadRouteBase, p)
	} else if code < 400 || code >= 500 {
		t.Errorf("DEFECT: negative page_size answered %d, want a 4xx", code)
	}
	func() {
		defer func() {
			if p := recover(); p != nil {
				t.Errorf("DEFECT: gRPC ListRelationTuples with page_size -3 panicked: %v", p)
			}
		}()
		ns := "n"
		_, err := h.ListRelationTuples(ctx, &rts.ListRelationTuplesRequest{RelationQuery: &rts.RelationQuery{Namespace: &ns}, PageSize: -3})
		if err == nil {
			t.Errorf("DEFECT: gRPC ListRelationTuples accepted page_size -3")
		}
	}()
}

// C07 "a malformed token is rejected as a client error" / C13 "malformed requests get a 4xx /
// InvalidArgument style answer rather than a 5xx / Internal one":
// obligations (*handler).getRelations/post.client-error-for-malformed-token and
// (*handler).ListRelationTuples/post.client-error-for-malformed-token
func TestVerifC13MalformedPageTokenIsAServerError(t *testing.T) {
	ctx := context.Background()
	reg := driver.NewSqliteTestRegistry(t, false)
	if err := reg.Config(ctx).Set(config.KeyNamespaces, []*namespace.Namespace{{Name: "n"}}); err != nil {
		t.Fatal(err)
	}
	r := httprouter.New()
	h := relationtuple.NewHandler(reg)
	h.RegisterReadRoutes(&x.ReadRouter{Router: r})
	code, p := vfServe(t, r, http.MethodGet, relationtuple.ReadRouteBase+"?namespace=n&page_token=not-a-token", "")
	if p != nil {
		t.Fatalf("panic: %v", p)
	}
	if code < 400 || code >= 500 {
		t.Errorf("DEFECT: GET %s?namespace=n&page_token=not-a-token answered %d, want a 4xx", relationtuple.ReadRouteBase, code)
	}
	ns := "n"
	_, err := h.ListRelationTuples(ctx, &rts.ListRelationTuplesRequest{RelationQuery: &rts.RelationQuery{Namespace: &ns}, PageToken: "not-a-token"})
	if err == nil {
		t.Errorf("DEFECT: gRPC ListRelationTuples accepted the page token \"not-a-token\"")
	} else if c := status.Code(err); c == codes.Unknown || c == codes.Internal {
		t.Errorf("DEFECT: gRPC ListRelationTuples with page token \"not-a-token\" answered code %v, want InvalidArgument", c)
	}
}
